//! Nondeterminism shim: under Kani `nd::<T>()` is `kani::any()`; in a native build it pops the next
//! byte vector of a concrete-playback counterexample, so the *same harness function* is what
//! the replayer (engine R, `src/bin/replay.rs`) executes against the real code.
use vrl::prelude::*;

#[cfg(not(kani))]
pub mod replay_queue {
    use std::cell::RefCell;
    use std::collections::VecDeque;
    thread_local! { pub static QUEUE: RefCell<VecDeque<Vec<u8>>> = RefCell::new(VecDeque::new()); }
    pub fn load(v: Vec<Vec<u8>>) {
        QUEUE.with(|q| *q.borrow_mut() = v.into());
    }
    pub fn next(n: usize) -> Vec<u8> {
        let v = QUEUE.with(|q| q.borrow_mut().pop_front()).unwrap_or_else(|| vec![0; n]);
        assert!(v.len() == n, "REPLAY-DECODE: expected {} bytes, got {}", n, v.len());
        v
    }
}

pub trait Nd: Sized {
    fn nd() -> Self;
}

macro_rules! nd_int {
    ($($t:ty),*) => {$(
        impl Nd for $t {
            #[cfg(kani)]
            fn nd() -> Self { kani::any() }
            #[cfg(not(kani))]
            fn nd() -> Self {
                let b = replay_queue::next(core::mem::size_of::<$t>());
                <$t>::from_le_bytes(b.try_into().unwrap())
            }
        }
    )*};
}
nd_int!(i64, u64, i32, u32, u8, i8, u16, usize, isize, f64);

impl Nd for bool {
    #[cfg(kani)]
    fn nd() -> Self { kani::any() }
    #[cfg(not(kani))]
    fn nd() -> Self { replay_queue::next(1)[0] != 0 }
}

pub fn nd<T: Nd>() -> T {
    T::nd()
}

#[cfg(kani)]
pub fn assume(c: bool) {
    kani::assume(c)
}
#[cfg(not(kani))]
pub fn assume(c: bool) {
    if !c {
        panic!("REPLAY-ASSUME-FAILED");
    }
}

#[macro_export]
macro_rules! cover {
    ($c:expr, $m:expr) => {{
        #[cfg(kani)]
        kani::cover!($c, $m);
        #[cfg(not(kani))]
        { let _ = $c; }
    }};
}

/// Declares harnesses (Kani proofs) and a registry `HARNESSES` for the native replayer.
#[macro_export]
macro_rules! harnesses {
    ($( $(#[$m:meta])* fn $name:ident() $body:block )*) => {
        $( $(#[$m])* #[cfg_attr(kani, kani::proof)] pub fn $name() $body )*
        pub const HARNESSES: &[(&str, fn())] = &[ $( (stringify!($name), $name as fn()) ),* ];
    };
}

pub fn int(a: i64) -> Value {
    Value::Integer(a)
}

/// Arbitrary non-NaN float (the only floats a `Value::Float` can hold).
pub fn any_f64() -> f64 {
    let f: f64 = nd();
    assume(!f.is_nan());
    f
}

pub fn float(f: f64) -> Value {
    match NotNan::new(f) {
        Ok(n) => Value::Float(n),
        Err(_) => {
            assume(false);
            Value::Null
        }
    }
}

/// Extract the boolean of a comparison result; anything else fails the role assertion.
pub fn as_bool(r: Result<Value, ValueError>, role: &'static str) -> bool {
    match r {
        Ok(Value::Boolean(b)) => b,
        Ok(other) => {
            core::mem::forget(other);
            assert!(false, "{}", role);
            false
        }
        Err(e) => {
            core::mem::forget(e);
            assert!(false, "{}", role);
            false
        }
    }
}

pub fn expect_int(r: Result<Value, ValueError>, role: &'static str) -> i64 {
    match r {
        Ok(Value::Integer(i)) => i,
        Ok(o) => {
            core::mem::forget(o);
            assert!(false, "{}", role);
            0
        }
        Err(e) => {
            core::mem::forget(e);
            assert!(false, "{}", role);
            0
        }
    }
}

/// Ok(Float(f)) -> Some(f); Err(_) -> None; any other Ok fails the role assertion.
pub fn float_or_err(r: Result<Value, ValueError>, role: &'static str) -> Option<f64> {
    match r {
        Ok(Value::Float(f)) => Some(f.into_inner()),
        Ok(o) => {
            core::mem::forget(o);
            assert!(false, "{}", role);
            None
        }
        Err(e) => {
            core::mem::forget(e);
            None
        }
    }
}

#[cfg(kani)]
pub fn stub_format(_args: core::fmt::Arguments<'_>) -> String {
    String::new()
}
