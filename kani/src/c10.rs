//! C10 — comparisons are consistent; integer equality is exact.
use crate::util::*;
use crate::{cover, harnesses};
use vrl::prelude::*;

harnesses! {

/// int × int: `<`, `>`, `<=`, `>=` agree with i64 order — all i64 pairs.
fn c10_int_order() {
    let a: i64 = nd();
    let b: i64 = nd();
    let lt = as_bool(int(a).try_lt(int(b)), "C10:int-lt-not-bool");
    let gt = as_bool(int(a).try_gt(int(b)), "C10:int-gt-not-bool");
    let le = as_bool(int(a).try_le(int(b)), "C10:int-le-not-bool");
    let ge = as_bool(int(a).try_ge(int(b)), "C10:int-ge-not-bool");
    assert!(lt == (a < b), "C10:int-lt");
    assert!(gt == (a > b), "C10:int-gt");
    assert!(le == (a <= b), "C10:int-le");
    assert!(ge == (a >= b), "C10:int-ge");
    cover!(a < b, "cover:lt");
    cover!(a > b, "cover:gt");
    cover!(a == b, "cover:eq");
}

/// int × int: `==` is exact 64-bit equality; trichotomy with `<`, `>` — all i64 pairs.
fn c10_int_eq() {
    let a: i64 = nd();
    let b: i64 = nd();
    let eq = int(a).eq_lossy(&int(b));
    let eq_rev = int(b).eq_lossy(&int(a));
    let lt = as_bool(int(a).try_lt(int(b)), "C10:int-lt-not-bool");
    let gt = as_bool(int(a).try_gt(int(b)), "C10:int-gt-not-bool");
    let le = as_bool(int(a).try_le(int(b)), "C10:int-le-not-bool");
    let ge = as_bool(int(a).try_ge(int(b)), "C10:int-ge-not-bool");
    assert!(eq == (a == b), "C10:int-int-eq");
    assert!(eq == eq_rev, "C10:int-eq-symmetric");
    let n = (lt as u8) + (eq as u8) + (gt as u8);
    assert!(n == 1, "C10:int-trichotomy");
    assert!(le == (lt || eq), "C10:int-le-agrees");
    assert!(ge == (gt || eq), "C10:int-ge-agrees");
    cover!(a == b, "cover:eq");
    cover!(a != b, "cover:ne");
}

/// float × float (all non-NaN pairs incl. ±inf, ±0): trichotomy with IEEE equality.
fn c10_float_cmp() {
    let a = any_f64();
    let b = any_f64();
    let eq = float(a).eq_lossy(&float(b));
    let lt = as_bool(float(a).try_lt(float(b)), "C10:float-lt-not-bool");
    let gt = as_bool(float(a).try_gt(float(b)), "C10:float-gt-not-bool");
    let le = as_bool(float(a).try_le(float(b)), "C10:float-le-not-bool");
    let ge = as_bool(float(a).try_ge(float(b)), "C10:float-ge-not-bool");
    assert!(eq == (a == b), "C10:float-float-eq");
    assert!(lt == (a < b), "C10:float-lt");
    assert!(gt == (a > b), "C10:float-gt");
    let n = (lt as u8) + (eq as u8) + (gt as u8);
    assert!(n == 1, "C10:float-trichotomy");
    assert!(le == (lt || eq), "C10:float-le-agrees");
    assert!(ge == (gt || eq), "C10:float-ge-agrees");
    cover!(a == 0.0 && b == 0.0 && a.is_sign_negative() && b.is_sign_positive(), "cover:signed-zero");
    cover!(a.is_infinite(), "cover:inf");
}

/// int × float: `==` is the documented lossy rule `(a as f64) == b`, symmetric; ordering
/// operators use the same conversion and mirror each other.
fn c10_mixed_cmp() {
    let a: i64 = nd();
    let b = any_f64();
    let e1 = int(a).eq_lossy(&float(b));
    let e2 = float(b).eq_lossy(&int(a));
    assert!(e1 == ((a as f64) == b), "C10:int-float-eq");
    assert!(e1 == e2, "C10:mixed-eq-symmetric");
    let lt = as_bool(int(a).try_lt(float(b)), "C10:mixed-lt-not-bool");
    let gt = as_bool(int(a).try_gt(float(b)), "C10:mixed-gt-not-bool");
    let le = as_bool(int(a).try_le(float(b)), "C10:mixed-le-not-bool");
    let ge = as_bool(int(a).try_ge(float(b)), "C10:mixed-ge-not-bool");
    let gt_rev = as_bool(float(b).try_gt(int(a)), "C10:mixed-gt-not-bool");
    let lt_rev = as_bool(float(b).try_lt(int(a)), "C10:mixed-lt-not-bool");
    let ge_rev = as_bool(float(b).try_ge(int(a)), "C10:mixed-ge-not-bool");
    let le_rev = as_bool(float(b).try_le(int(a)), "C10:mixed-le-not-bool");
    assert!(lt == ((a as f64) < b), "C10:mixed-lt");
    assert!(gt == ((a as f64) > b), "C10:mixed-gt");
    assert!(lt == gt_rev, "C10:mixed-lt-mirror");
    assert!(gt == lt_rev, "C10:mixed-gt-mirror");
    assert!(le == ge_rev, "C10:mixed-le-mirror");
    assert!(ge == le_rev, "C10:mixed-ge-mirror");
    let n = (lt as u8) + (e1 as u8) + (gt as u8);
    assert!(n == 1, "C10:mixed-trichotomy");
    assert!(le == (lt || e1), "C10:mixed-le-agrees");
    assert!(ge == (gt || e1), "C10:mixed-ge-agrees");
}

/// boolean / null equality is structural.
#[cfg_attr(kani, kani::unwind(3))]
fn c10_bool_null_eq() {
    let a: bool = nd();
    let b: bool = nd();
    assert!(Value::Boolean(a).eq_lossy(&Value::Boolean(b)) == (a == b), "C10:bool-eq");
    assert!(Value::Null.eq_lossy(&Value::Null), "C10:null-eq");
    assert!(!Value::Null.eq_lossy(&Value::Boolean(b)), "C10:null-bool-ne");
    assert!(!Value::Boolean(a).eq_lossy(&Value::Null), "C10:bool-null-ne");
    let i: i64 = nd();
    assert!(!Value::Boolean(a).eq_lossy(&int(i)), "C10:bool-int-ne");
    assert!(!Value::Null.eq_lossy(&int(i)), "C10:null-int-ne");
}

/// Vacuity witness: the same set-up as c10_int_eq, ending in assert(false) — must FAIL.
fn c10_vacuity_witness() {
    let a: i64 = nd();
    let b: i64 = nd();
    let _eq = int(a).eq_lossy(&int(b));
    let _lt = as_bool(int(a).try_lt(int(b)), "C10:int-lt-not-bool");
    assert!(false, "VACUITY");
}

}
