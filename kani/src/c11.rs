//! C11 — arithmetic follows the documented numeric semantics.
use crate::util::*;
use crate::{cover, harnesses};
use vrl::prelude::*;

fn is_div_zero(r: &Result<Value, ValueError>) -> bool {
    matches!(r, Err(ValueError::DivideByZero))
}
fn is_nan_err(r: &Result<Value, ValueError>) -> bool {
    matches!(r, Err(ValueError::NanFloat))
}

/// result must be Ok(Float(non-NaN f)) with f == expect (bitwise unless both zero... IEEE ==),
/// or Err(NanFloat) exactly when expect is NaN.
fn check_float_result(r: Result<Value, ValueError>, expect: f64, role_val: &'static str, role_nan: &'static str) {
    match r {
        Ok(Value::Float(f)) => {
            let f = f.into_inner();
            assert!(!f.is_nan(), "{}", role_nan);
            assert!(!expect.is_nan(), "{}", role_nan);
            assert!(f.to_bits() == expect.to_bits(), "{}", role_val);
        }
        Ok(o) => {
            core::mem::forget(o);
            assert!(false, "{}", role_val);
        }
        Err(ValueError::NanFloat) => {
            assert!(expect.is_nan(), "{}", role_nan);
        }
        Err(e) => {
            core::mem::forget(e);
            assert!(false, "{}", role_val);
        }
    }
}

harnesses! {

/// int ⊕ int for + - : 64-bit two's-complement wrapping — all i64 pairs.
fn c11_int_add_sub() {
    let a: i64 = nd();
    let b: i64 = nd();
    assert!(expect_int(int(a).try_add(int(b)), "C11:int-add-kind") == a.wrapping_add(b), "C11:int-add-wrap");
    assert!(expect_int(int(a).try_sub(int(b)), "C11:int-sub-kind") == a.wrapping_sub(b), "C11:int-sub-wrap");
    cover!(a.checked_add(b).is_none(), "cover:add-overflows");
}

/// int * int wraps — all i64 pairs (the harness computes the same wrapping product, so the
/// multiplier is shared syntactically and not bit-blasted twice).
fn c11_int_mul() {
    let a: i64 = nd();
    let b: i64 = nd();
    assert!(expect_int(int(a).try_mul(int(b)), "C11:int-mul-kind") == a.wrapping_mul(b), "C11:int-mul-wrap");
}

/// int % int: wrapping remainder; zero divisor is an error — all i64 pairs.
fn c11_int_rem() {
    let a: i64 = nd();
    let b: i64 = nd();
    let r = int(a).try_rem(int(b));
    if b == 0 {
        assert!(is_div_zero(&r), "C11:int-rem-zero");
        core::mem::forget(r);
    } else {
        assert!(expect_int(r, "C11:int-rem-kind") == a.wrapping_rem(b), "C11:int-rem-wrap");
    }
}

/// int / int: always a float (or an error); zero divisor fails; value is the f64 quotient of
/// the converted operands — all i64 pairs.
fn c11_int_div() {
    let a: i64 = nd();
    let b: i64 = nd();
    let r = int(a).try_div(int(b));
    if b == 0 {
        assert!(is_div_zero(&r), "C11:int-div-zero");
        core::mem::forget(r);
    } else {
        check_float_result(r, a as f64 / b as f64, "C11:int-div-value", "C11:div-nan");
    }
}

/// Mixed int/float for + - *: equals the float operation on the converted integer, both orders;
/// result never NaN (error instead).
fn c11_mixed_add_sub() {
    let a: i64 = nd();
    let b = any_f64();
    check_float_result(int(a).try_add(float(b)), a as f64 + b, "C11:mixed-add", "C11:add-nan");
    check_float_result(float(b).try_add(int(a)), b + a as f64, "C11:mixed-add-rev", "C11:add-nan");
    check_float_result(int(a).try_sub(float(b)), a as f64 - b, "C11:mixed-sub", "C11:sub-nan");
    check_float_result(float(b).try_sub(int(a)), b - a as f64, "C11:mixed-sub-rev", "C11:sub-nan");
}

fn c11_mixed_mul() {
    let a: i64 = nd();
    let b = any_f64();
    check_float_result(int(a).try_mul(float(b)), a as f64 * b, "C11:mixed-mul", "C11:mul-nan");
    check_float_result(float(b).try_mul(int(a)), b * a as f64, "C11:mixed-mul-rev", "C11:mul-nan");
}

/// float ⊕ float for + - : IEEE result, NaN becomes an error.
fn c11_float_add_sub() {
    let a = any_f64();
    let b = any_f64();
    check_float_result(float(a).try_add(float(b)), a + b, "C11:float-add", "C11:add-nan");
    check_float_result(float(a).try_sub(float(b)), a - b, "C11:float-sub", "C11:sub-nan");
    cover!(a.is_infinite() && b.is_infinite() && (a + b).is_nan(), "cover:inf-minus-inf");
}

fn c11_float_mul() {
    let a = any_f64();
    let b = any_f64();
    check_float_result(float(a).try_mul(float(b)), a * b, "C11:float-mul", "C11:mul-nan");
}

/// division with a float on either side: zero divisor (0.0 or -0.0) fails; otherwise the IEEE
/// quotient of the converted operands; never NaN.
fn c11_float_div() {
    let a = any_f64();
    let b = any_f64();
    let r = float(a).try_div(float(b));
    if b == 0.0 {
        assert!(is_div_zero(&r), "C11:float-div-zero");
        core::mem::forget(r);
    } else {
        check_float_result(r, a / b, "C11:float-div", "C11:div-nan");
    }
}

fn c11_mixed_div() {
    let a: i64 = nd();
    let b = any_f64();
    let r = int(a).try_div(float(b));
    if b == 0.0 {
        assert!(is_div_zero(&r), "C11:mixed-div-zero");
        core::mem::forget(r);
    } else {
        check_float_result(r, a as f64 / b, "C11:mixed-div", "C11:div-nan");
    }
    let r2 = float(b).try_div(int(a));
    if a == 0 {
        assert!(is_div_zero(&r2), "C11:mixed-div-zero-rev");
        core::mem::forget(r2);
    } else {
        check_float_result(r2, b / a as f64, "C11:mixed-div-rev", "C11:div-nan");
    }
}

/// Wrong operand kinds are errors, never a panic or a value: bool/null operands.
fn c11_bad_kinds() {
    let a: i64 = nd();
    let b: bool = nd();
    let r = int(a).try_add(Value::Boolean(b));
    assert!(r.is_err(), "C11:add-int-bool-err");
    core::mem::forget(r);
    let r = Value::Null.try_mul(int(a));
    assert!(r.is_err(), "C11:mul-null-int-err");
    core::mem::forget(r);
    let r = Value::Boolean(b).try_sub(int(a));
    assert!(r.is_err(), "C11:sub-bool-int-err");
    core::mem::forget(r);
    let r = Value::Boolean(b).try_div(int(a));
    assert!(r.is_err(), "C11:div-bool-int-err");
    core::mem::forget(r);
}

fn c11_vacuity_witness() {
    let a: i64 = nd();
    let b: i64 = nd();
    let _ = expect_int(int(a).try_add(int(b)), "C11:int-add-kind");
    assert!(false, "VACUITY");
}

}
