//! C19 (scalar fragment) — union / merge contain every member of their operands, and the subtype test
//! agrees with membership, for all kinds without collections (all 2^8 x 2^8 flag combinations).
use crate::util::*;
use crate::{cover, harnesses};
use vrl::prelude::*;
use vrl::value::kind::merge::{CollisionStrategy, Strategy};

fn kind_from(flags: u8) -> Kind {
    let mut k = Kind::never();
    if flags & 1 != 0 { k = k.or_bytes(); }
    if flags & 2 != 0 { k = k.or_integer(); }
    if flags & 4 != 0 { k = k.or_float(); }
    if flags & 8 != 0 { k = k.or_boolean(); }
    if flags & 16 != 0 { k = k.or_timestamp(); }
    if flags & 32 != 0 { k = k.or_regex(); }
    if flags & 64 != 0 { k = k.or_null(); }
    if flags & 128 != 0 { k = k.or_undefined(); }
    k
}

fn single(tag: u8) -> Kind {
    kind_from(1u8 << tag)
}

/// does `k` admit values of scalar kind `tag`?  Read through the real subtype test.
fn admits(k: &Kind, tag: u8) -> bool {
    let s = single(tag);
    let r = k.is_superset(&s);
    let ok = r.is_ok();
    core::mem::forget(r);
    core::mem::forget(s);
    ok
}

harnesses! {

/// a.union(b) admits exactly the scalar kinds admitted by a or by b
fn c19_union_scalar() {
    let fa: u8 = nd();
    let fb: u8 = nd();
    let tag: u8 = nd();
    assume(tag < 8);
    let a = kind_from(fa);
    let b = kind_from(fb);
    let u = a.union(b);
    let want = ((fa | fb) >> tag) & 1 == 1;
    assert!(admits(&u, tag) == want, "C19:union-scalar-membership");
    core::mem::forget(u);
    core::mem::forget(a);
    cover!(fa == 0 && fb == 0, "cover:never-never");
}

/// merge (both collision strategies) likewise
fn c19_merge_scalar() {
    let fa: u8 = nd();
    let fb: u8 = nd();
    let tag: u8 = nd();
    let shallow: bool = nd();
    assume(tag < 8);
    let mut a = kind_from(fa);
    let b = kind_from(fb);
    a.merge(b, Strategy { collisions: if shallow { CollisionStrategy::Overwrite } else { CollisionStrategy::Union } });
    let want = ((fa | fb) >> tag) & 1 == 1;
    assert!(admits(&a, tag) == want, "C19:merge-scalar-membership");
    core::mem::forget(a);
}

/// the subtype test agrees with membership: a is a superset of b iff every scalar kind of b is one of a
fn c19_superset_scalar() {
    let fa: u8 = nd();
    let fb: u8 = nd();
    let a = kind_from(fa);
    let b = kind_from(fb);
    let r = a.is_superset(&b);
    let got = r.is_ok();
    core::mem::forget(r);
    assert!(got == ((fb & !fa) == 0), "C19:superset-agrees-with-membership");
    core::mem::forget(a);
    core::mem::forget(b);
}

/// the kind computed for a scalar value admits that value's kind and nothing else (one harness per variant:
/// the variant is concrete, the payload symbolic)
fn c19_kind_of_integer() {
    let i: i64 = nd();
    let v = Value::Integer(i);
    let k = Kind::from(&v);
    let t: u8 = nd();
    assume(t < 8);
    assert!(admits(&k, t) == (t == 1), "C19:kind-of-integer-is-exact");
    core::mem::forget(k);
}

fn c19_kind_of_float() {
    let v = float(any_f64());
    let k = Kind::from(&v);
    let t: u8 = nd();
    assume(t < 8);
    assert!(admits(&k, t) == (t == 2), "C19:kind-of-float-is-exact");
    core::mem::forget(k);
}

fn c19_kind_of_boolean_null() {
    let b: bool = nd();
    let v = Value::Boolean(b);
    let k = Kind::from(&v);
    let t: u8 = nd();
    assume(t < 8);
    assert!(admits(&k, t) == (t == 3), "C19:kind-of-boolean-is-exact");
    core::mem::forget(k);
    let k2 = Kind::from(&Value::Null);
    assert!(admits(&k2, t) == (t == 6), "C19:kind-of-null-is-exact");
    core::mem::forget(k2);
}

fn c19_vacuity_witness() {
    let fa: u8 = nd();
    let a = kind_from(fa);
    let _ = admits(&a, 0);
    core::mem::forget(a);
    assert!(false, "VACUITY");
}

}

