//! Engine K: Kani proof harnesses over the real, compiled vrl code (path dependency on /repo).
//! Every harness name starts with the property id it serves (c10_, c11_, ...).
//! Assertion messages carry a *role* tag ("C10:int-int-eq") that the driver uses to key
//! known findings and VIOLATION lines.  The same functions compile natively (no `cfg(kani)`)
//! for the replayer, reading their "nondeterministic" inputs from a counterexample.
#![allow(dead_code, unused_imports, unused_macros, clippy::all)]

#[macro_use]
pub mod util;
pub mod c10;
pub mod c11;
pub mod c19;

pub fn all_harnesses() -> Vec<(&'static str, fn())> {
    let mut v = Vec::new();
    v.extend_from_slice(c10::HARNESSES);
    v.extend_from_slice(c11::HARNESSES);
    v.extend_from_slice(c19::HARNESSES);
    v
}
