//! Engine R (Kani side): run one harness natively on a concrete counterexample.
//! usage: replay <harness> <hex-bytes-of-any-1> <hex-bytes-of-any-2> ...
//! exit 0 + "REPRODUCED <panic message>"  — the harness's assertion fails natively
//! exit 3 + "NOT-REPRODUCED"              — harness ran to completion (or an assumption failed)
#[cfg(kani)]
fn main() {}

#[cfg(not(kani))]
use std::panic;

#[cfg(not(kani))]
fn unhex(s: &str) -> Vec<u8> {
    (0..s.len() / 2).map(|i| u8::from_str_radix(&s[2 * i..2 * i + 2], 16).unwrap()).collect()
}

#[cfg(not(kani))]
fn main() {
    let args: Vec<String> = std::env::args().collect();
    if args.len() < 2 {
        eprintln!("usage: replay <harness> <hex>...");
        std::process::exit(2);
    }
    let name = &args[1];
    let vals: Vec<Vec<u8>> = args[2..].iter().map(|s| if s == "-" { vec![] } else { unhex(s) }).collect();
    let Some((_, f)) = vrl_kani::all_harnesses().into_iter().find(|(n, _)| n == name) else {
        eprintln!("unknown harness {name}");
        std::process::exit(2);
    };
    vrl_kani::util::replay_queue::load(vals);
    panic::set_hook(Box::new(|_| {}));
    let r = panic::catch_unwind(f);
    match r {
        Ok(()) => {
            println!("NOT-REPRODUCED harness completed without a failing assertion");
            std::process::exit(3);
        }
        Err(e) => {
            let msg = if let Some(s) = e.downcast_ref::<String>() {
                s.clone()
            } else if let Some(s) = e.downcast_ref::<&str>() {
                (*s).to_string()
            } else {
                "<non-string panic>".to_string()
            };
            if msg.contains("REPLAY-ASSUME-FAILED") || msg.contains("REPLAY-DECODE") {
                println!("NOT-REPRODUCED {msg}");
                std::process::exit(3);
            }
            println!("REPRODUCED {msg}");
            std::process::exit(0);
        }
    }
}
