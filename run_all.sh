#!/bin/bash
# re-run every claimed check (quick tier) on the current tree and report
cd "$(dirname "$0")"
rc=0
for p in $(python3 -c "import json;print(' '.join(c['property_id'] for c in json.load(open('MANIFEST.json'))['checks']))"); do
  out=$(./check $p --tier ${1:-quick} 2>&1); r=$?
  echo "$out" | grep -E "^(SUMMARY|VIOLATION|INCONCLUSIVE|KNOWN-FINDING)" | cut -c1-220
  [ $r -ne 0 ] && { echo "  -> $p exit $r"; rc=1; }
done
exit $rc
