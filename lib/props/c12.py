import sys, os
sys.path.insert(0, os.path.join(os.path.dirname(os.path.dirname(os.path.abspath(__file__))), "mirse"))
from common import *


def run():
    import nodecheck
    ev = Evidence("C12", "proof")
    thorough = tier() == "thorough"
    bounds = {"block": 5, "array": 4} if thorough else {"block": 3, "array": 2}
    ev.cov["bounds"] = [f"Block: 1..{bounds['block']} expressions; Array/Object: 0..{bounds['array']} elements; every other node: no bound",
                        "children: arbitrary Resolved outcome (oracle), arbitrary side effects"]
    ev.cov["trusted_base"] = ["rustc nightly -Zunpretty=mir output is the code that runs", "MIR semantics of /verif/lib/mirse/symex.py",
                              "std models (Try, FromResidual, Result/Option combinators, slice/BTreeMap iteration) in symex.py",
                              "z3 4.x (cvc5 cross-check of every unsat in the thorough tier)",
                              "structural induction over the expression tree (paper argument, DESIGN.md)"]
    ev.cov["checker_cmd"] = "python3-vt /verif/lib/check.py C12  (MIR dump: cargo +nightly rustc -- -Zunpretty=mir; solver: z3 via python API)"
    ev.assumptions = ["child expressions and the target are arbitrary (oracles): they may return any Resolved and change any state",
                      "opaque pure functions (kind(), Display/format, Vec::new, Label::primary, ...) return arbitrary values of their type",
                      "program-level claim follows from the node lemmas by structural induction; the compiler front-end is not encoded"]
    viol, inconc, known = nodecheck.check("C12", ev, bounds, cvc5_cross=thorough)
    return ev, viol, inconc, known
