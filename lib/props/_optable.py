import sys, os, json, hashlib, time
sys.path.insert(0, os.path.join(os.path.dirname(os.path.dirname(os.path.abspath(__file__))), "mirse"))
from common import *


def run_optable(prop):
    import optablelemmas, vrl_replay, witness
    from lemma import Session, Unencodable
    ev = Evidence(prop, "proof")
    viol, inconc, known_lines = [], [], []
    known = known_for(prop)
    ev.cov["bounds"] = ["FRAGMENT: eager binary operators * / + - != == >= > <= < applied to two event fields whose kinds are any non-empty subsets of {integer, float, bytes, boolean, null, timestamp}: 63 x 63 x 10 = 39,690 typing rows, all of them",
                        "operand payloads: all i64, all non-NaN f64 (solver); bytes / timestamp payloads do not influence the result kind or fallibility (comparison results are opaque booleans)",
                        "NOT covered BY THE TABLE: variables, nested paths, blocks, if/else, closures, function calls, collections, literals/constant operands, short-circuit operators -- the lemma families listed below cover the state flow, fallibility and join rules of those constructs, not their result kinds (the Kind / TypeDef algebra is uninterpreted)"]
    ev.cov["trusted_base"] = ["engine T: the typing table is computed natively by the real compiler (compile_with_external on `.a OP .b`), exhaustive over the stated finite domain, regenerated on every run -- an input of the check, not a verdict",
                              "engine S: MIR semantics + std models; z3 decides the feasibility of every runtime path of try_mul/div/add/sub/ge/gt/le/lt and eq_lossy per operand-variant pair",
                              "membership of a scalar value in a scalar kind is decided by its variant"]
    ev.cov["checker_cmd"] = f"python3-vt /verif/lib/check.py {prop}"
    try:
        S = Session.get()
        results, fns, info = optablelemmas.obligations(S)
    except Unencodable as e:
        return ev, viol, [f"unencodable: {e}"], known_lines
    ev.cov["functions_encoded"] = [f"{n} [mir sha256:{h}]" for n, h in fns]
    ev.cov["table_rows"] = info["rows"]
    ev.cov["runtime_outcome_summary"] = info["summary"]
    mine = [r for r in results if r[0] == prop]
    bad = {}
    for _, role, ok, detail in mine:
        ev.cov["obligations"] += 1
        if ok:
            ev.cov["discharged"] += 1
        else:
            bad.setdefault(role, []).append(detail)
    ev.cov["samples"] = [{"row": r[3]["row"], "role": r[1], "holds": r[2]} for r in mine[:3] + mine[20000:20002]]
    ev.cov["queries"] = [{"name": f"{prop}:optable rows for operator {op}", "result": "discharged" if not any(op in k for k in bad) else "open"} for op in ("*", "/", "+", "-", "!=", "==", ">=", ">", "<=", "<")]
    for role, details in sorted(bad.items()):
        if role in known:
            known_lines.append(f"KNOWN-FINDING: property={prop} {known[role]['what']}")
            ev.cov["obligations"] -= len(details)
            continue
        reproduced = None
        for d in details[:4]:
            for spec, exp in optablelemmas.replay_specs(d):
                for prof in ("dev", "release"):
                    obs = vrl_replay.call("run", [spec], prof)
                    if obs is None:
                        continue
                    mm = witness.mismatch(obs[0], exp)
                    if mm:
                        reproduced = (spec, exp, {prof: "REPRODUCED: " + "; ".join(mm)}, d)
                        break
                if reproduced:
                    break
            if reproduced:
                break
        if reproduced:
            spec, exp, nat, d = reproduced
            os.makedirs(os.path.join(VERIF, "replays"), exist_ok=True)
            h = hashlib.sha1((role + json.dumps(spec, sort_keys=True)).encode()).hexdigest()[:10]
            path = os.path.join(VERIF, "replays", f"{prop}-{h}.json")
            json.dump({"engine": "mirse", "mode": "run", "property": prop, "role": role, "row": d["row"], "spec": spec, "expect": exp, "native": nat}, open(path, "w"), indent=1)
            viol.append((role, path))
            ev.cov["refuted"].append({"role": role, "rows": len(details), "replay": path})
        else:
            inconc.append(f"{role}: {len(details)} typing rows disagree with the runtime summary (e.g. {details[0]['row']} {details[0]['bad'][:1]}) but no witness program reproduced natively")
    # ---- type-state flow lemmas (engine S on the MIR of the nodes' type_info)
    try:
        import typeflowlemmas
        from lemma import Discharger
        thorough = tier() == "thorough"
        tb = {"block": 5, "array": 4} if thorough else {"block": 3, "array": 2}
        ev.cov["bounds"].append(f"type-state flow lemmas: IfStatement, Not, Group, Predicate, Unary, Container, Return, Abort (no bound); Block 1..{tb['block']} expressions, Array/Object 0..{tb['array']} elements; "
                                "children are oracles that return an arbitrary type and name the state they leave after the state they were given")
        tobls, tfns = typeflowlemmas.obligations(S, tb)
        battery_of = {o.role: (typeflowlemmas.closure_battery if "closure-body" in o.role else typeflowlemmas.assignment_battery if "AssignVariant::type_info" in o.role else typeflowlemmas.op_battery if ":Op::type_info[" in o.role else typeflowlemmas.battery) for o in tobls}
        import envlemmas
        eobls, efns = envlemmas.obligations(S)
        for o in eobls:
            battery_of[o.role] = envlemmas.battery
        tobls, tfns = tobls + eobls, sorted(set(tfns) | set(efns))
        ev.cov["bounds"].append("LocalEnv::apply_child_scope / merge: explicit maps with at most 2 bindings per side over 3 identifiers, every overlap shape; bindings arbitrary")
        if prop == "C02":
            # the infallible-division / short-circuit decisions of Op::type_info read operand constants in the state of evaluation
            import stateflowlemmas
            sobls, sfns = stateflowlemmas.obligations(S)
            for o in sobls:
                o.props = set(o.props) | {"C02"}
                battery_of[o.role] = stateflowlemmas.battery
            import ctorlemmas
            cobls, cfns = ctorlemmas.obligations(S)
            cobls = [o for o in cobls if "C02" in o.props]
            for o in cobls:
                battery_of[o.role] = lambda: [({"source": ".r = !5\n", "event": {}}, {"accepted_never_fails": True}),
                                              ({"source": ".r = !.a\n", "event": {"a": 5}}, {"accepted_never_fails": True}),
                                              ({"source": "x = if .f == true { 5 } else { true }\n.r = !x\n", "event": {"f": True}}, {"accepted_never_fails": True})]
            tobls, tfns = tobls + cobls, sorted(set(tfns) | set(cfns))
            import falliblelemmas
            fobls, ffns = falliblelemmas.obligations(S)
            for o in fobls:
                battery_of[o.role] = falliblelemmas.battery
            bobls, bfns = falliblelemmas.block_obligations(S, tb)
            for o in bobls:
                battery_of[o.role] = falliblelemmas.block_battery
            iobls, ifns = falliblelemmas.if_obligations(S)
            for o in iobls:
                battery_of[o.role] = falliblelemmas.if_battery
            fobls, ffns = fobls + bobls + iobls, sorted(set(ffns) | set(bfns) | set(ifns))
            tobls, tfns = tobls + sobls + fobls, sorted(set(tfns) | set(sfns) | set(ffns))
            ev.cov["bounds"].append("Op::type_info fallibility lemma (all opcodes, no bound): the fallibility of every TypeDef is tracked as a boolean term; kinds uninterpreted")
            ev.cov["bounds"].append("Op::type_info state-flow lemma (all opcodes, no bound): operand constants are read in the state in which the operand is evaluated")
        if prop == "C01":
            import falliblelemmas
            fobls, ffns = falliblelemmas.obligations(S)
            fobls = [o for o in fobls if "C01" in o.props]
            for o in fobls:
                battery_of[o.role] = falliblelemmas.battery
            tobls, tfns = tobls + fobls, sorted(set(tfns) | set(ffns))
        ev.cov["functions_encoded"] += [f"{n} [mir sha256:{h}]" for n, h in tfns]
        refuted = {}
        for o in tobls:
            if prop not in o.props:
                continue
            D = Discharger(o.ex, ev, prop, cvc5_cross=thorough)
            r = D.check(o.name, o.path, o.post, detail={"role": o.role, **(o.detail or {})})
            if r is False:
                refuted.setdefault(o.role, []).append(o)
            elif r is None:
                inconc += D.inconclusive
        for role, items in sorted(refuted.items()):
            if role in known:
                known_lines.append(f"KNOWN-FINDING: property={prop} {known[role]['what']}")
                ev.cov["obligations"] -= len(items)
                continue
            reproduced = None
            nat = {}
            for spec, exp in battery_of[role]():
                for prof in ("dev", "release"):
                    obs = vrl_replay.call("run", [spec], prof)
                    if obs is None:
                        nat[prof] = "replayer unavailable"
                        continue
                    mm = witness.mismatch(obs[0], exp)
                    if mm:
                        reproduced = (spec, exp, {prof: "REPRODUCED: " + "; ".join(mm)})
                        break
                if reproduced:
                    break
            if reproduced:
                spec, exp, nat = reproduced
                os.makedirs(os.path.join(VERIF, "replays"), exist_ok=True)
                h = hashlib.sha1((role + json.dumps(spec, sort_keys=True)).encode()).hexdigest()[:10]
                path = os.path.join(VERIF, "replays", f"{prop}-{h}.json")
                json.dump({"engine": "mirse", "mode": "run", "property": prop, "role": role, "problems": items[0].detail.get("problems"), "spec": spec, "expect": exp, "native": nat}, open(path, "w"), indent=1)
                viol.append((role, path))
                ev.cov["refuted"].append({"role": role, "paths": len(items), "replay": path})
            else:
                inconc.append(f"{role}: refuted on {len(items)} path(s) ({items[0].detail.get('problems')}) but no battery program reproduced natively")
    except Unencodable as e:
        inconc.append(f"unencodable (type-state flow lemmas): {e}")
    return ev, viol, inconc, known_lines
