"""shared driver for the stdlib-kernel fragments (C03, C04, C05, C25, C29)"""
import sys, os
sys.path.insert(0, os.path.join(os.path.dirname(os.path.dirname(os.path.abspath(__file__))), "mirse"))
from common import *


def run_fragment(prop, level, extra_bounds, extra_obligations=None, note=None):
    import kernelcheck, stdlemmas
    ev = Evidence(prop, level)
    thorough = tier() == "thorough"
    radices = (2, 8, 10, 16, 36) if thorough else (10, 16)
    digits = 3 if thorough else 2

    def obl(S_unused):
        S = stdlemmas.session()
        # radix 36 with three digits (36^3 multiplier chains) does not finish within the per-query time limit
        o, f = stdlemmas.obligations(S, radices=radices, max_digits=digits, digits_for={36: 2})
        if extra_obligations:
            o2, f2 = extra_obligations()
            o, f = o + o2, f + f2
        return o, f
    ev.cov["bounds"] = [f"abs: every Value variant, all i64 / non-NaN f64 (no bound)",
                        f"format_radix: radix in {radices}, all i64 x with |x| < radix^{digits} (digit loop unrolled {digits}x; radix 36: 2 digits in both tiers) PLUS the entry path for every i64 (sign handling, incl. i64::MIN); larger |x| end in 'outside the bound' paths",
                        "mod: structural (is try_rem, which C11 covers)"] + extra_bounds
    ev.cov["trusted_base"] = ["rustc nightly -Zunpretty=mir of the stdlib-base build", "MIR semantics + std models in lib/mirse (i64::abs/wrapping_abs/unsigned_abs, char::from_digit, VecDeque<char> as a list)", "z3"]
    ev.cov["checker_cmd"] = f"python3-vt /verif/lib/check.py {prop}"
    ev.assumptions = ["only the functions listed in functions_encoded are covered; every other stdlib function is outside this check (FRAGMENT of the property)"] + ([note] if note else [])
    viol, inconc, known = kernelcheck.check(prop, ev, obl, stdlemmas.replayer, cvc5_cross=False)
    if level == "model_checking":
        ev.cov["states"] = max(1, ev.cov["obligations"])
        ev.cov["transitions"] = max(1, ev.cov["obligations"])
        ev.cov["traces_validated_against_impl"] = 0
    return ev, viol, inconc, known
