import sys, os
sys.path.insert(0, os.path.join(os.path.dirname(os.path.dirname(os.path.abspath(__file__))), "mirse"))
from common import *


def run():
    import kernelcheck, arithlemmas
    ev = Evidence("C11", "proof")
    thorough = tier() == "thorough"
    ev.cov["bounds"] = ["operands: every Value variant; Integer payload: all i64; Float payload: all non-NaN f64 (incl. +-inf, +-0); no loop, no unwinding",
                        "string concatenation / repetition: only the operand selection and the repeat count (max(n,0)) are encoded; the byte copying is bytes-crate code (opaque)",
                        "float %: remainder function uninterpreted on both sides (SMT-LIB has no fmod)"]
    ev.cov["trusted_base"] = ["rustc nightly -Zunpretty=mir output", "MIR semantics + std/ordered_float models in lib/mirse/symex.py (NotNan::new/into_inner, Result::map/map_err)",
                              "z3 FloatingPoint theory (cvc5 cross-check in the thorough tier)", "expected results: documented semantics written as z3 terms in lib/mirse/arithlemmas.py"]
    ev.cov["checker_cmd"] = "python3-vt /verif/lib/check.py C11"
    ev.assumptions = ["Value::Float never holds NaN (NotNan invariant)", "Bytes::len() <= isize::MAX"]
    viol, inconc, known = kernelcheck.check("C11", ev, arithlemmas.obligations, arithlemmas.replayer, cvc5_cross=thorough, mutants=arithlemmas.mutants)
    return ev, viol, inconc, known
