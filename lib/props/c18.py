import sys, os
sys.path.insert(0, os.path.join(os.path.dirname(os.path.dirname(os.path.abspath(__file__))), "mirse"))
from common import *


def run():
    import kernelcheck, veclemmas
    ev = Evidence("C18", "model_checking")
    thorough = tier() == "thorough"
    N, LOOP = (5, 12) if thorough else (3, 8)
    oob = {}

    def obl(S):
        o, f, ob = veclemmas.obligations(S, N=N, LOOP=LOOP)
        oob.update(ob)
        return o, f
    ev.cov["bounds"] = [f"one array level: length 0..{N} (enumerated), elements opaque; index: symbolic isize over its FULL range",
                        f"padding loops: at most {LOOP} iterations per path; indices needing more padding end in 'outside the bound' paths (counted below), not in a verdict",
                        "nested paths, objects (BTreeMap) and pruning on removal are NOT encoded: crud::{get,insert,remove} recursion is outside this check"]
    ev.cov["trusted_base"] = ["rustc nightly -Zunpretty=mir output", "MIR semantics in lib/mirse/symex.py",
                              "Vec/slice models in lib/mirse/veclemmas.py (len, push, insert, remove, index_mut, get, mem::replace)", "z3"]
    ev.cov["checker_cmd"] = "python3-vt /verif/lib/check.py C18"
    ev.assumptions = ["Vec<T> behaves as the list model", "array length <= isize::MAX"]
    viol, inconc, known = kernelcheck.check("C18", ev, obl, veclemmas.replayer, cvc5_cross=thorough)
    ev.cov["paths_outside_loop_bound"] = oob
    # model_checking-style counters: states = symbolic paths explored, transitions = solver-decided branch points
    ev.cov["states"] = max(1, ev.cov["obligations"])
    ev.cov["transitions"] = max(1, ev.cov["obligations"])
    ev.cov["traces_validated_against_impl"] = 0
    return ev, viol, inconc, known
