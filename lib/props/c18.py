import sys, os
sys.path.insert(0, os.path.join(os.path.dirname(os.path.dirname(os.path.abspath(__file__))), "mirse"))
from common import *


def run():
    import kernelcheck, veclemmas
    ev = Evidence("C18", "model_checking")
    thorough = tier() == "thorough"
    N, LOOP = (5, 12) if thorough else (3, 8)
    oob = {}

    import crudlemmas

    def obl(S):
        o, f, ob = veclemmas.obligations(S, N=N, LOOP=LOOP)
        oob.update(ob)
        o2, f2 = crudlemmas.obligations(S)
        o3, f3, seen = crudlemmas.get_obligations(S, DEPTH=(4 if thorough else 3))
        ev.cov["crud_get_paths"] = seen
        return o + [x for x in o2 + o3 if "C18" in x.props], f + f2 + f3

    def replayer(o, model):
        if ":crud::get:" in o.role:
            return crudlemmas.get_replayer(o, model)
        return crudlemmas.replayer(o, model) if ":crud::remove:" in o.role else veclemmas.replayer(o, model)
    ev.cov["bounds"] = [f"one array level: length 0..{N} (enumerated), elements opaque; index: symbolic isize over its FULL range",
                        f"padding loops: at most {LOOP} iterations per path; indices needing more padding end in 'outside the bound' paths (counted below), not in a verdict",
                        "one level of the recursive crud::remove driver (generic collection, oracles for the collection's operations and the recursive call): nothing-found changes nothing, pruning exactly when asked and the child became empty",
                        f"crud::get: loop head visited {4 if thorough else 3} times (walks of up to {3 if thorough else 2} successful look-ups) (deeper walks end 'outside the bound'; every iteration is the same code from an arbitrary value reached, so the per-segment statement is an induction step), look-ups and the path iterator are oracles: each segment is looked up in the value reached so far, an exhausted path returns that value, a segment is skipped only on a non-container or a container of the other kind; crud::insert recursion and the BTreeMap side of ValueCollection are NOT encoded"]
    ev.cov["trusted_base"] = ["rustc nightly -Zunpretty=mir output", "MIR semantics in lib/mirse/symex.py",
                              "Vec/slice models in lib/mirse/veclemmas.py (len, push, insert, remove, index_mut, get, mem::replace)", "z3"]
    ev.cov["checker_cmd"] = "python3-vt /verif/lib/check.py C18"
    ev.assumptions = ["Vec<T> behaves as the list model", "array length <= isize::MAX"]
    viol, inconc, known = kernelcheck.check("C18", ev, obl, replayer, cvc5_cross=thorough)
    ev.cov["paths_outside_loop_bound"] = oob
    # model_checking-style counters: states = symbolic paths explored, transitions = solver-decided branch points
    ev.cov["states"] = max(1, ev.cov["obligations"])
    ev.cov["transitions"] = max(1, ev.cov["obligations"])
    ev.cov["traces_validated_against_impl"] = 0
    return ev, viol, inconc, known
