import sys, os
sys.path.insert(0, os.path.join(os.path.dirname(os.path.dirname(os.path.abspath(__file__))), "mirse"))
from props._stdfrag import run_fragment


def extra():
    """panic obligations of every body the other checks encode: nodes, runners, constructors, Vec kernels, arithmetic"""
    from lemma import Session
    import nodelemmas, runnerlemmas, veclemmas, arithlemmas, ctorlemmas, constlemmas
    S = Session.get()
    obls, fns = [], []
    o, f, _ = nodelemmas.all_obligations(S, {"block": 3, "array": 2})
    obls += o
    fns += f
    for mod in (runnerlemmas, arithlemmas, ctorlemmas):
        o, f = mod.obligations(S)
        obls += o
        fns += f
    o, f, _ = veclemmas.obligations(S, N=3, LOOP=8)
    obls += o
    fns += f
    o, f, _ = constlemmas.obligations(S)
    obls += o
    fns += f
    return [x for x in obls if "C04" in x.props], fns


def run():
    return run_fragment("C04", "model_checking",
                        ["plus: every MIR `assert` (overflow, bounds, division), `unreachable`, unwrap/expect and explicit panic on every path of the bodies encoded by the other checks "
                         "(expression nodes, Runner, constructors, Vec<Value> kernels with the index over the full isize range, arithmetic) must be infeasible",
                         "profile: overflow-checks=on (the dev/test profile); NOT covered: lexer, parser, diagnostics rendering, the rest of the stdlib"],
                        extra_obligations=extra)
