from props._stdfrag import run_fragment


def run():
    return run_fragment("C25", "model_checking", ["format_int/parse_int pair: (a) format_radix digits are the positional notation of |x|, sign pushed iff x < 0 (bounded digits); (b) wrapper lemmas, no bound: format_int hands value and base unchanged to format_radix and fails only on non-integer arguments or a base outside 2..=36; parse_int hands the string (from index 0, or after the documented 0b/0o/0x prefix when no base is given) and the base to i64::from_str_radix and returns its integer; i64::from_str_radix itself is std and is trusted to invert positional notation",
                                                  "all other pairs of C25 (flatten/unflatten, entries, ip_*, timestamps) are NOT covered"])
