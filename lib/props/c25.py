from props._stdfrag import run_fragment


def run():
    return run_fragment("C25", "model_checking", ["only the format_int half (format_radix digits are the positional notation of |x|, sign pushed iff x < 0); parse_int is i64::from_str_radix (std) and is not encoded",
                                                  "all other pairs of C25 (flatten/unflatten, entries, ip_*, timestamps) are NOT covered"])
