from props._stdfrag import run_fragment


def run():
    return run_fragment("C29", "model_checking", ["covered: abs on integers (magnitude, wraps only at the minimum integer), mod == truncated remainder via try_rem (C11)",
                                                  "NOT covered: round/ceil/floor precision (10f64.powf: libm), to_int/to_float/parse_float consistency"])
