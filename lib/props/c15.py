import sys, os
sys.path.insert(0, os.path.join(os.path.dirname(os.path.dirname(os.path.abspath(__file__))), "mirse"))
from common import *


def run():
    import kernelcheck, pathlemmas
    ev = Evidence("C15", "proof")
    thorough = tier() == "thorough"
    L = 3 if thorough else 2
    ev.cov["bounds"] = [f"one read-only entry q and one written path p, each of 0..{L} segments; every segment an arbitrary Field(name) or Index(isize, full range); prefix and `recursive` arbitrary",
                        "several read-only entries: the guard is a disjunction over entries, each entry is covered by the single-entry lemma"]
    ev.cov["trusted_base"] = ["rustc nightly -Zunpretty=mir output", "MIR semantics + iterator models in lib/mirse (BTreeSet/Vec/slice iteration over lists of concrete length)",
                              "the aliasing relation in lib/mirse/pathlemmas.py (two index segments denote the same element for some array length iff equal or of different sign)", "z3"]
    ev.cov["checker_cmd"] = "python3-vt /verif/lib/check.py C15"
    ev.assumptions = ["the only writers of the target are assignment::Target::insert(External) and del, both compiled behind is_read_only_path (audited syntactically on every run)",
                      "a write strictly below a NON-recursive read-only path is permitted by the documented meaning of recursive=false",
                      "runtime writes themselves obey the path laws (C18)"]
    probs = pathlemmas.audit_guard_call_sites()
    viol, inconc, known = kernelcheck.check("C15", ev, lambda S: pathlemmas.obligations(S, L), pathlemmas.replayer, cvc5_cross=thorough)
    ev.cov["guard_call_site_audit"] = probs or "ok"
    inconc += probs
    return ev, viol, inconc, known
