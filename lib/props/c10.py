from common import *
import kani_engine as K


def run():
    ev = Evidence("C10", "proof")
    ev.cov["functions_encoded"] = ["<Value as VrlValueArithmetic>::{eq_lossy,try_gt,try_ge,try_lt,try_le} (src/compiler/value/arithmetic.rs), compiled by Kani from /repo's working tree"]
    ev.cov["bounds"] = ["int x int: all i64 pairs (no bound)", "float x float: all non-NaN f64 pairs incl. +-inf, +-0 (no bound)",
                        "int x float: all i64 x non-NaN f64", "bool/null: exhaustive"]
    ev.cov["trusted_base"] = ["Kani 0.68.0 codegen + CBMC 6.11.0 + cadical", "harness-side oracle: native i64/f64 comparison operators",
                              "rustc MIR -> goto translation"]
    ev.assumptions = ["Value::Float never holds NaN (NotNan invariant, assumed on inputs)",
                      "bytes/timestamp/container comparisons: see DESIGN.md §5 C10 (separate harnesses, bounded)"]
    t = 240 if tier() == "quick" else 1800
    viol, inconc, known = K.check_property("C10", ev, ["c10_"], timeout_s=t, jobs=8)
    # engine S half: operator dispatch for bytes / timestamps, and a cross-check of the numeric cases
    import sys, os
    sys.path.insert(0, os.path.join(os.path.dirname(os.path.dirname(os.path.abspath(__file__))), "mirse"))
    import kernelcheck, cmplemmas
    k_fns = list(ev.cov["functions_encoded"])
    v2, i2, k2 = kernelcheck.check("C10", ev, cmplemmas.obligations, cmplemmas.replayer, cvc5_cross=(tier() == "thorough"))
    ev.cov["functions_encoded"] = k_fns + list(ev.cov["functions_encoded"])
    ev.cov["bounds"].append("engine S: try_gt/ge/lt/le and eq_lossy on every operand-variant pair: bytes/timestamp comparisons apply the matching std operator to the two payloads in order (the comparison itself is bytes/chrono code), bytes|timestamp vs another kind is an error, non-numeric == is Value's structural equality")
    return ev, viol + v2, inconc + i2, known + k2
