from common import *
import kani_engine as K


def run():
    ev = Evidence("C10", "proof")
    ev.cov["functions_encoded"] = ["<Value as VrlValueArithmetic>::{eq_lossy,try_gt,try_ge,try_lt,try_le} (src/compiler/value/arithmetic.rs), compiled by Kani from /repo's working tree"]
    ev.cov["bounds"] = ["int x int: all i64 pairs (no bound)", "float x float: all non-NaN f64 pairs incl. +-inf, +-0 (no bound)",
                        "int x float: all i64 x non-NaN f64", "bool/null: exhaustive"]
    ev.cov["trusted_base"] = ["Kani 0.68.0 codegen + CBMC 6.11.0 + cadical", "harness-side oracle: native i64/f64 comparison operators",
                              "rustc MIR -> goto translation"]
    ev.assumptions = ["Value::Float never holds NaN (NotNan invariant, assumed on inputs)",
                      "bytes/timestamp/container comparisons: see DESIGN.md §5 C10 (separate harnesses, bounded)"]
    t = 240 if tier() == "quick" else 1800
    viol, inconc, known = K.check_property("C10", ev, ["c10_"], timeout_s=t, jobs=8)
    return ev, viol, inconc, known
