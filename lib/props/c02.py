from props._optable import run_optable


def run():
    return run_optable("C02")
