from common import *
import kani_engine as K


def run():
    ev = Evidence("C19", "proof")
    ev.cov["functions_encoded"] = ["Kind::{union, merge (both collision strategies), merge_keep, merge_primitives, is_superset}, Kind::from(&Value) for scalar variants, builder or_* (src/value/kind/*.rs), compiled by Kani from /repo's working tree"]
    ev.cov["bounds"] = ["FRAGMENT: kinds WITHOUT collections: all 2^8 x 2^8 combinations of the eight scalar flags (bytes, integer, float, boolean, timestamp, regex, null, undefined), incl. `never`",
                        "NOT covered: object/array kinds, at_path / insert / remove on kinds (Kani does not finish on BTreeMap-backed collections: a one-field object kind timed out at 7 min)"]
    ev.cov["trusted_base"] = ["Kani 0.68.0 codegen + CBMC 6.11.0 + cadical", "harness-side membership = the flag bits the kind was built from; results are read back through the real is_superset"]
    ev.assumptions = ["membership of a scalar value in a scalar kind is decided by its kind tag alone"]
    t = 300 if tier() == "quick" else 1800
    viol, inconc, known = K.check_property("C19", ev, ["c19_"], timeout_s=t, jobs=8)
    return ev, viol, inconc, known
