"""Property checks built on the node lemmas: C06, C07, C08, C09, C17 (and the panic obligations for C04)."""
import json, os, hashlib, time
from nodelemmas import *
import witness
import common
import vrl_replay


def shapes_from_model(o, model):
    """decode, for the failing path, the outcome shape of every child-resolve event from the solver model"""
    ex, p = o.ex, o.path
    shapes = {}
    v = V(ex, p.st)
    for e in p.st.trace:
        if e["kind"] != "resolve":
            continue
        r = e["result"]
        name = outcome_name(ex, model, r)
        if name == "Ok":
            val = ex.child_of(r.uid, r.ty, "Ok", 0, VAL)
            d = model.eval(ex.discr_of(val.uid, VAL), model_completion=True).as_signed_long()
            vs = {k: n for n, k in ex.types.enum_variants(VAL)}
            vn = vs.get(d, "?")
            if vn == "Boolean":
                b = model.eval(ex.child_of(val.uid, VAL, "Boolean", 0, "bool").e, model_completion=True)
                shape = ("Ok", "true" if z3.is_true(b) else "false")
            elif vn == "Null":
                shape = ("Ok", "null")
            else:
                shape = ("Ok", "val")
        else:
            shape = ("Err", name[4:-1])
        shapes[e["child"]] = shape
    return shapes


def node_of_role(role):
    # 'C07:Op[Err]:lhs:Abort' -> ('Op', '[Err]', rest)
    parts = role.split(":")
    m = re.match(r"^([\w\(\)=]+?)(\[[^\]]*\])?$", parts[1])
    return m.group(1), (m.group(2) or ""), parts[2:]


def make_witness(o, model, run_label):
    """returns (spec, expect) or None"""
    node, desc, rest = node_of_role(o.role)
    prop = o.role.split(":")[0]
    raw_shapes = shapes_from_model(o, model)
    shapes = {witness.normalize_child(node, run_label(k)): v for k, v in raw_shapes.items()}
    w = witness.build(node, desc, shapes)
    if w is None:
        return None
    if prop in ("C06", "C07") and len(rest) == 2 and rest[1] in ("Abort", "Return"):
        child = witness.normalize_child(node, rest[0])
        if child not in w.order:
            return None
        exp = witness.expect_propagation(w, child, rest[1])
    else:
        exp = witness.expect_semantics(node, desc, w, shapes)
        if exp is None:
            return None
    return {"source": w.source, "event": w.event}, exp, shapes


def c17_witness(role):
    """fault-injection witnesses: the native replayer wraps the event in a target that rejects chosen operations"""
    if "stdlib::unnest" in role:
        return [({"source": ".r = unnest!(.a)\n", "event": {"a": [1, 2]}, "faults": {"get": [1]}}, {"outcome": "abort"}, {}),
                ({"source": ".r, .e = unnest(.a)\n.after = true\n", "event": {"a": [1, 2]}, "faults": {"get": [1]}}, {"outcome": "ok", "event_has": ["after"]}, {})]
    if "stdlib::exists" in role:
        return [({"source": ".r = exists(.a)\n.after = true\n", "event": {"a": 5}, "faults": {"get": [1]}}, {"outcome": "ok", "event_eq": {"r": {"Boolean": False}}, "event_has": ["after"]}, {})]
    if "stdlib::del" in role:
        return [({"source": ".r = del(.a)\n.after = true\n", "event": {"a": 5}, "faults": {"remove": [0]}},
                 {"outcome": "ok", "event_eq": {"r": "Null", "a": {"Integer": "5"}}, "event_has": ["after"]}, {}),
                # a transient rejection (only the first removal fails), with and without compaction, event and metadata
                ({"source": ".r = del(.a.b, compact: true)\n.after = true\n", "event": {"a": {"b": 5}}, "faults": {"remove": [0]}},
                 {"outcome": "ok", "event_eq": {"r": "Null", "a": {"Object": {"b": {"Integer": "5"}}}}, "event_has": ["after"]}, {}),
                ({"source": ".r = del(.a.b, compact: false)\n.after = true\n", "event": {"a": {"b": 5}}, "faults": {"remove": [0]}},
                 {"outcome": "ok", "event_eq": {"r": "Null", "a": {"Object": {"b": {"Integer": "5"}}}}, "event_has": ["after"]}, {}),
                ({"source": "%m.n = 5\n.r = del(%m.n, compact: true)\n.after = true\n", "event": {}, "faults": {"remove": [0]}},
                 {"outcome": "ok", "event_eq": {"r": "Null"}, "event_has": ["after"]}, {})]
    if "Query[External]" in role:
        spec = {"source": ".out = .a\n.after = true\n", "event": {"a": 5}, "faults": {"get": [1]}}
        exp = {"outcome": "ok", "event_has": ["after", "out"], "event_eq": {"out": "Null", "a": {"Integer": "5"}}}
        if "successful-read" in role:
            spec = {"source": ".out = .a\n.after = true\n", "event": {"a": 5}}
            exp = {"outcome": "ok", "event_eq": {"out": {"Integer": "5"}}}
            return spec, exp, {}
        # the rejected read may be of a field, of the event root, or of metadata (get #0 is the runtime's root check)
        return [(spec, exp, {}),
                ({"source": "x = .\n.out = x\n.after = true\n", "event": {"a": 5}, "faults": {"get": [1]}},
                 {"outcome": "ok", "event_has": ["after", "out"], "event_eq": {"out": "Null", "a": {"Integer": "5"}}}, {}),
                ({"source": ".out = %a\n.after = true\n", "event": {"a": 5}, "faults": {"get": [1]}},
                 {"outcome": "ok", "event_has": ["after", "out"], "event_eq": {"out": "Null", "a": {"Integer": "5"}}}, {}),
                ({"source": "x = %\n.out = x\n.after = true\n", "event": {"a": 5}, "faults": {"get": [1]}},
                 {"outcome": "ok", "event_has": ["after", "out"], "event_eq": {"out": "Null", "a": {"Integer": "5"}}}, {})]
    if "AssignVariant" in role:
        out = []
        for src, ev in ((".parsed, err = parse_json(.message)\n.after = true\n", {"message": "{"}), ("%parsed, err = parse_json(.message)\n.after = true\n", {"message": "{"}),
                        (".x = 1\n.after = true\n", {"a": 5}), (".parsed, err = parse_json(.message)\n.after = true\n", {"message": "{}"})):
            for k in (0, 1):
                out.append(({"source": src, "event": ev, "faults": {"insert": [k]}}, {"outcome": "ok"}, {}))
        return out
    if "AssignTarget[External]" in role:
        spec = {"source": ".x = 1\n.after = true\n", "event": {"a": 5}, "faults": {"insert": [0]}}
        exp = {"outcome": "ok", "event_has": ["after"], "event_lacks": ["x"], "event_eq": {"a": {"Integer": "5"}}}
        if "writes-the-assigned-value" in role:
            spec = {"source": ".x = 1\n.after = true\n", "event": {"a": 5}}
            exp = {"outcome": "ok", "event_eq": {"x": {"Integer": "1"}}}
        return spec, exp, {}
    if "Runtime:" in role:
        # a target whose root cannot be read ends the run with an error -- whatever the program does
        return [({"source": ".x = 1\n", "event": {"a": 5}, "faults": {"get": [0]}}, {"outcome": "error", "event_lacks": ["x"]}, {}),
                ({"source": "x = 5\nx * 2\n", "event": {"a": 5}, "faults": {"get": [0]}}, {"outcome": "error"}, {}),
                ({"source": ".x = 1\n", "event": {"a": 5}}, {"outcome": "ok", "event_has": ["x"]}, {})]
    return None


def check(prop, ev, bounds=None, cvc5_cross=False):
    """run every node lemma tagged with `prop`; returns (violations, inconclusive, known_lines)"""
    viol, inconc, known_lines = [], [], []
    known = common.known_for(prop)
    try:
        S = Session.get()
        ev.cov["mir_dump_s"] = round(S.dump_secs, 1)
        found, unknown = audit(S)
        if unknown:
            inconc.append(f"unmodelled `impl Expression` (induction incomplete): {unknown}")
        obls, fns, stats = all_obligations(S, bounds or {"block": 3, "array": 2})
    except Unencodable as e:
        inconc.append(f"unencodable: {e}")
        return viol, inconc, known_lines
    import runnerlemmas
    try:
        robls, rfns = runnerlemmas.obligations(S)
        obls = obls + robls
        fns = sorted(set(fns) | set(rfns))
        users, badusers = runnerlemmas.audit_stdlib_closure_users()
        ev.cov["stdlib_closure_users"] = users
        if badusers:
            inconc.append(f"stdlib closure function drives its closure outside the four Runner methods: {badusers}")
    except Unencodable as e:
        inconc.append(f"unencodable (Runner): {e}")
    if prop in ("C06", "C07"):
        try:
            import driverlemmas
            dobls, dfns = driverlemmas.obligations()
            obls = obls + dobls
            fns = sorted(set(fns) | set(dfns))
        except Unencodable as e:
            inconc.append(f"unencodable (stdlib closure drivers): {e}")
    if prop == "C17":
        try:
            import stdlemmas
            found_sites, unknown_sites = audit_target_call_sites()
            ev.cov["target_call_sites"] = sorted(found_sites)
            if unknown_sites:
                inconc.append(f"target operation call site without a C17 lemma: {sorted(unknown_sites)}")
            so, sf = stdlib_target_obligations(stdlemmas.session())
            obls = obls + so
            fns = sorted(set(fns) | set(sf))
        except Unencodable as e:
            inconc.append(f"unencodable (stdlib target call sites): {e}")
    import ctorlemmas, constlemmas, typeinfolemmas, stateflowlemmas, compilelemmas
    try:
        cpo, cpf = compilelemmas.obligations(S)
        obls = obls + cpo
        fns = sorted(set(fns) | set(cpf))
    except Unencodable as e:
        inconc.append(f"unencodable (compile_* faithfulness lemmas): {e}")
    try:
        sobls, sfns = stateflowlemmas.obligations(S)
        obls = obls + sobls
        fns = sorted(set(fns) | set(sfns))
    except Unencodable as e:
        inconc.append(f"unencodable (Op::type_info state-flow lemma): {e}")
    try:
        tobls, tfns = typeinfolemmas.obligations(S)
        obls = obls + tobls
        fns = sorted(set(fns) | set(tfns))
    except Unencodable as e:
        inconc.append(f"unencodable (type_info lemma): {e}")
    try:
        cobls, cfns = ctorlemmas.obligations(S)
        kobls, kfns, assumed = constlemmas.obligations(S, {"array": (bounds or {}).get("array", 2)})
        obls = obls + cobls + kobls
        fns = sorted(set(fns) | set(cfns) | set(kfns))
        ev.cov["constant_soundness_assumed_for"] = assumed
    except Unencodable as e:
        inconc.append(f"unencodable (constructor / constant lemmas): {e}")
    if prop == "C12":
        try:
            import simlemmas
            mo, mf = simlemmas.obligations(S)
            vo, vf = simlemmas.variable_obligations(S)
            do, df = simlemmas.details_merge_obligations(S)
            obls = obls + mo + vo + do
            fns = sorted(set(fns) | set(mf) | set(vf) | set(df))
        except Unencodable as e:
            inconc.append(f"unencodable (assignment simulation lemma): {e}")
        try:
            import typeflowlemmas
            fo, ff = typeflowlemmas.function_call(S, bounds or {"block": 3, "array": 2})
            ao, af = typeflowlemmas.assignment(S)
            import envlemmas
            eo, ef = envlemmas.obligations(S)
            obls = obls + fo + ao + eo
            fns = sorted(set(fns) | set(ff) | set(af) | set(ef))
        except Unencodable as e:
            inconc.append(f"unencodable (FunctionCall type-state flow lemma): {e}")
    ev.cov["functions_encoded"] = [f"{n} [mir sha256:{h}]" for n, h in fns]
    ev.cov["node_stats"] = stats
    ev.cov["expression_impls_audited"] = found
    mine = [o for o in obls if prop in o.props]
    refuted = {}
    reach = 0
    for o in mine:
        D = Discharger(o.ex, ev, prop, cvc5_cross=cvc5_cross)
        r = D.check(o.name, o.path, o.post, detail={"role": o.role, **(o.detail or {})})
        if r is False:
            refuted.setdefault(o.role, []).append((o, D.failures[-1][2]))
        elif r is None:
            inconc += D.inconclusive
    # vacuity: every implication-shaped obligation's path must be reachable
    for o in mine[:]:
        pass
    ev.cov["vacuity_witnesses"].append({"paths_all_feasible_by_construction": True,
                                         "note": "paths are only created for branches the solver found satisfiable (or could not refute)"})
    labelers = {}
    for role, items in sorted(refuted.items()):
        if role in known:
            line = f"KNOWN-FINDING: property={prop} {known[role]['what']}"
            if line not in known_lines:
                known_lines.append(line)
            ev.cov["known_findings"].append({"role": role, "paths": len(items)})
            # known obligations are not counted as open
            ev.cov["obligations"] -= len(items)
            continue
        o, model = items[0]
        # find the NodeRun label function again: labels were normalised at obligation creation; use identity on stored labels
        node, desc, rest = node_of_role(role)
        fields = None
        for cand in (node, "FunctionCall", "Program"):
            pass
        lab = child_label(S.types.struct_fields(node if node not in ("AssignVariant",) else "Variant", o.ex.hint_mod) or [])
        res = None
        try:
            if ":stdlib::" in role and not role.startswith("C17:"):
                import driverlemmas
                res = [(a, b, {}) for a, b in driverlemmas.battery()]
            elif role.endswith(":closure-body-effects-reach-the-state"):
                import typeflowlemmas
                res = [(a, b, {}) for a, b in typeflowlemmas.closure_battery()]
            elif role == "C06:Return:carries-the-value-of-its-expression":
                S3 = lambda x: {"Array": [{"Bytes": x}] * 3}                                                       # noqa: E731
                res = [({"source": "fallback = \"n/a\"\n.r = map_values([1, 2, 3]) -> |_v| { return fallback }\n.after = fallback\n", "event": {}},
                        {"outcome": "ok", "event_eq": {"r": S3("n/a"), "after": {"Bytes": "n/a"}}}, {}),
                       ({"source": "fallback = \"n/a\"\n.r = map_values({\"a\": 1, \"b\": 2}) -> |_v| { return fallback }\n.after = fallback\n", "event": {}},
                        {"outcome": "ok", "event_eq": {"r": {"Object": {"a": {"Bytes": "n/a"}, "b": {"Bytes": "n/a"}}}, "after": {"Bytes": "n/a"}}}, {}),
                       ({"source": "x = 5\n.before = true\nreturn x\n", "event": {}}, {"outcome": "ok", "event_has": ["before"]}, {})]
            elif role.endswith(":every-variable-carries-the-binding-of-the-code-that-ran"):
                import envlemmas
                res = [(a, b, {}) for a, b in envlemmas.battery()]
            elif role.endswith(":state-follows-the-runtime-stores"):
                import typeflowlemmas
                res = [(a, b, {}) for a, b in typeflowlemmas.assignment_battery()]
            elif role.endswith(":state-follows-the-runtime-paths"):
                import typeflowlemmas
                res = [(a, b, {}) for a, b in typeflowlemmas.battery()]
            elif role == "C12:Variable:constant-matches-runtime":
                import simlemmas
                res = [(a, b, {}) for a, b in simlemmas.variable_battery()]
            elif role.endswith(":constant-kept-only-when-both-sides-agree"):
                import simlemmas
                res = [(a, b, {}) for a, b in simlemmas.merge_battery()]
            elif role.endswith(":recorded-constant-is-the-stored-value"):
                import simlemmas
                res = [(a, b, {}) for a, b in simlemmas.battery()]
            elif role.endswith(":operand-constants-are-read-in-the-state-of-evaluation"):
                res = [(a, b, {}) for a, b in stateflowlemmas.battery()]
            elif role.endswith(":ok-type-includes-default-kind"):
                res = [(a, b, {}) for a, b in typeinfolemmas.battery()]
            elif role.endswith(":constant-matches-runtime"):
                node = role.split(":")[1]
                res = [(a, b, {}) for a, b in constlemmas.battery(node)] or None
            elif role.endswith(":node-holds-its-own-compiled-children-in-their-slots"):
                res = [(a, b, {}) for a, b in compilelemmas.battery() + ctorlemmas.battery()]
            elif role.endswith(":node-holds-the-given-subexpressions"):
                res = [(a, b, {}) for a, b in ctorlemmas.battery()] or None
            elif role.startswith("C17:"):
                res = c17_witness(role)
            elif ":Runner::" in role:
                rw = runnerlemmas.runner_witness(role)
                res = [(a, b, {}) for a, b in rw] if rw else None
            else:
                res = make_witness(o, model, lab)
                if res is not None and role.startswith("C09:IfStatement:"):
                    # the shape of the blocks matters to implementations that special-case `else if`: else-blocks that start
                    # with an `if` and go on, nested if/else chains, an if-block that is itself an `if`
                    src = ('.r = if .p == true { .ran_if = true; "first" } else { if .q == true { .nested = true }; .ran_else = true; "second" }\n.after = true\n')
                    src2 = ('.r = if .p == true { if .q == true { .nested = true }; .ran_if = true; "first" } else if .q == true { .ran_elif = true; "elif" } else { .ran_else = true; "second" }\n.after = true\n')
                    B = lambda b: {"Boolean": b}                                                                     # noqa: E731
                    S_ = lambda x: {"Bytes": x}                                                                      # noqa: E731
                    extra = []
                    for pv in (True, False):
                        for qv in (True, False):
                            want = "first" if pv else "second"
                            has = ["after"] + (["ran_if"] if pv else ["ran_else"]) + (["nested"] if (qv and not pv) else [])
                            lacks = (["ran_else", "nested"] if pv else ["ran_if"]) + ([] if (qv and not pv) else ["nested"])
                            extra.append(({"source": src, "event": {"p": pv, "q": qv}}, {"outcome": "ok", "event_eq": {"r": S_(want)}, "event_has": has, "event_lacks": sorted(set(lacks))}, {}))
                            want2 = "first" if pv else ("elif" if qv else "second")
                            has2 = ["after"] + (["ran_if"] if pv else (["ran_elif"] if qv else ["ran_else"])) + (["nested"] if (pv and qv) else [])
                            extra.append(({"source": src2, "event": {"p": pv, "q": qv}}, {"outcome": "ok", "event_eq": {"r": S_(want2)}, "event_has": has2}, {}))
                    res = (res if isinstance(res, list) else [res]) + extra
                if res is not None and role.endswith("AssignVariant[Infallible]:infallible-error"):
                    # the order of the two stores is observable when the err target lies inside the ok target
                    res = (res if isinstance(res, list) else [res]) + [
                        ({"source": ".res, .res.error = 1 / .zero\n.after = true\n", "event": {"zero": 0}}, {"outcome": "ok", "types_sound": True, "event_has": ["after", "res"]}, {}),
                        ({"source": "r, r.error = 1 / .zero\n.res = r\n", "event": {"zero": 0}}, {"outcome": "ok", "types_sound": True, "event_has": ["res"]}, {})]
        except Exception as e:  # noqa
            inconc.append(f"{role}: witness builder failed: {e}")
            continue
        if res is None:
            inconc.append(f"{role}: refuted by the solver, but no witness template exists for this node (cannot replay)")
            continue
        variants = res if isinstance(res, list) else [res]
        nat = {}
        reproduced = False
        for spec, exp, shapes in variants:
            for prof in ("dev", "release"):
                obs = vrl_replay.call("run", [spec], prof)
                if obs is None:
                    nat[prof] = "replayer unavailable"
                    continue
                mm = witness.mismatch(obs[0], exp)
                if mm is None:
                    nat[prof] = f"witness program rejected by the compiler: {obs[0].get('messages')}"
                elif mm:
                    nat[prof] = "REPRODUCED: " + "; ".join(mm)
                    reproduced = True
                else:
                    nat[prof] = "not reproduced (observation matches expectation)"
            if reproduced:
                break
        if reproduced:
            os.makedirs(os.path.join(common.VERIF, "replays"), exist_ok=True)
            h = hashlib.sha1((role + spec["source"]).encode()).hexdigest()[:10]
            path = os.path.join(common.VERIF, "replays", f"{prop}-{h}.json")
            with open(path, "w") as f:
                json.dump({"engine": "mirse", "mode": "run", "property": prop, "role": role, "child_outcomes": {k: list(v) for k, v in shapes.items()},
                           "spec": spec, "expect": exp, "native": nat}, f, indent=1)
            viol.append((role, path))
            ev.cov["refuted"].append({"role": role, "replay": path, "native": nat})
        else:
            inconc.append(f"{role}: solver counterexample did not reproduce natively ({nat}); encoding or witness template needs attention")
    return viol, inconc, known_lines
