"""AST -> node faithfulness of the compiler's `compile_*` methods (bridge between the parsed program and the
runtime tree the node lemmas talk about): with `compile_expr` / `compile_predicate` / `compile_block` as oracles,
the node returned by

    compile_if_statement, compile_op, compile_not, compile_return, compile_abort, compile_group, compile_unary

holds the compiled form of *its own* AST children, each in the right slot (predicate / if-block / else-block; lhs /
opcode / rhs; operand), and the children are compiled in source order.  Type-state bookkeeping, diagnostics and
fallibility tracking are arbitrary (opaque)."""
import re
from lemma import *
from nodelemmas import Obl

OPAQUE = [r"^<TypeState as Clone>::clone$", r"as Expression>::apply_type_info$", r"as Expression>::type_info$", r"^TypeDef::\w+$", r"^<TypeDef as Deref>::deref$",
          r"<impl value::kind::Kind>::\w+$", r"as Expression>::resolve_constant$", r"^Span::\w+$", r"^<.* as Clone>::clone$",
          r"^ast::Node::<.*>::(span|inner|into_inner|take)$", r"^<ast::Opcode as PartialEq>::eq$", r"CompilerError", r"^<.* as PartialEq>::(eq|ne)$"]


class CompileOracle:
    def __call__(self, ex, st, callee, args, dest_ty, frame, depth):
        m = callee.split("::")[-1]
        n = len(st.trace)
        argn = ex.val_name(st, args[1])
        res = ex.fresh(dest_ty, f"{m}#{n}({argn})")
        st.trace.append({"kind": "compile", "method": m, "arg": argn, "result": res, "n": n})
        return [(st, Outcome("ret", res))]


def m_box_new(ex, st, callee, args, dest_ty, frame, depth):
    cell = f"box{next(ex.counter)}"
    st.heap[cell] = args[0]
    return [(st, Outcome("ret", Ref(dest_ty, cell, ())))]


def m_node_new(ex, st, callee, args, dest_ty, frame, depth):
    return [(st, Outcome("ret", Agg(dest_ty, {0: args[0], 1: args[1]})))]


ORACLES = [(re.compile(r"Compiler::<'_>::compile_(expr|exprs|predicate|block|block_with_type)$"), CompileOracle()),
           (re.compile(r"^Box::<.*>::new$"), m_box_new),
           (re.compile(r"^ast::Node::<.*>::new$"), m_node_new)]

# function -> slots of the returned node: (field path, index of the compile_* call whose result must sit there, regex on the
# AST child that call was given).  The slot must contain that call's result and no other call's result.
NODE = r"(into_inner|take)\(node\)"
EXPECT = {
    "compile_if_statement": {"slots": [((0,), 0, rf"^{NODE}\.0$"), ((1,), 1, rf"^{NODE}\.1$"), ((2,), 2, rf"^{NODE}\.2\.Some\.0$")], "optional": {2}},
    "compile_group": {"slots": [((0,), 0, rf"^{NODE}\.0")], "optional": set()},
    "compile_op": {"slots": [((0,), 0, rf"^{NODE}\.0\."), ((1,), 1, rf"^{NODE}\.2\.")], "optional": set(), "plain": [((2,), rf"^take\({NODE}\.1\)\.1$")]},
    "compile_not": {"slots": [((0,), 0, rf"^{NODE}\.1\.")], "optional": set()},
    "compile_return": {"slots": [((1,), 0, rf"^{NODE}\.1\.")], "optional": set()},
    "compile_abort": {"slots": [((1,), 0, rf"{NODE}\.1\.")], "optional": {1}},
    "compile_unary": {"slots": [((0, "Not", 0, 0), 0, rf"^into_inner\({NODE}\.Not\.0\)\.1\.")], "optional": set()},
}


def _slot(ex, st, node, path):
    v = node
    i = 0
    while i < len(path):
        k = path[i]
        if isinstance(k, str):
            v = ex.enum_field(st, v, k, path[i + 1], "?")
            i += 2
        else:
            v = ex.agg_field(st, v, k, "?")
            i += 1
        while isinstance(v, Ref):
            v = ex.read(st, v.cell, v.path)
    return v


def obligations(S):
    obls, fns = [], []
    for name, spec in EXPECT.items():
        c = S.prog.find(None, "Compiler", name)
        if len(c) != 1:
            raise Unencodable(f"Compiler::{name}: {len(c)} bodies")
        f = c[0]
        ex = S.executor(oracles=ORACLES, opaque=OPAQUE)
        args = [ex.fresh(f.params[0][1], "self"), ex.fresh(f.params[1][1], "node"), ex.fresh(f.params[2][1], "state")]
        paths = ex.run(f, args)
        fns.append((f.name, f.text_hash))
        for n_, h in ex.stats["fns_entered"].items():
            fns.append((n_, h))
        n_some = 0
        for pi, p in enumerate(paths):
            if p.outcome.kind != "ret":
                o = Obl(f"C04:Compiler::{name}:{p.outcome.kind}", {"C04"}, f"C04:Compiler::{name}#path{pi}", p, z3.BoolVal(False), {"msg": p.outcome.msg})
                o.ex = ex
                obls.append(o)
                continue
            r = p.outcome.value
            d = p.st.simp(ex.discriminant(p.st, r))
            if not (z3.is_bv_value(d) and d.as_long() == 1):
                continue
            n_some += 1
            node = ex.enum_field(p.st, r, "Some", 0, "node")
            calls = [e for e in p.st.trace if e["kind"] == "compile"]
            problems = []
            for path, k, argrx in spec["slots"]:
                try:
                    nm = ex.val_name(p.st, _slot(ex, p.st, node, path)).replace(" ", "")
                except Unencodable as e:
                    problems.append(f"slot {path}: {e}")
                    continue
                if nm == "None" and path[0] in spec["optional"]:
                    continue
                here = re.findall(r"compile_\w+#(\d+)\(", nm)
                if set(here) != {str(k)}:
                    problems.append(f"slot {path} holds {nm[:120]} (expected the result of compile call #{k} only)")
                elif k >= len(calls) or not re.search(argrx, calls[k]["arg"].replace(" ", "")):
                    problems.append(f"compile call #{k} was given {calls[k]['arg'][:80] if k < len(calls) else '?'} (expected the AST child matching {argrx})")
            for path, rx in spec.get("plain", []):
                nm = ex.val_name(p.st, _slot(ex, p.st, node, path)).replace(" ", "")
                if not re.search(rx, nm):
                    problems.append(f"slot {path} holds {nm[:120]} (expected {rx})")
            order = [int(x) for x in re.findall(r"#(\d+)\(", " ".join(f"#{e['n']}(" for e in calls))]
            if order != sorted(order):
                problems.append("children compiled out of source order")
            for prop in ("C09", "C06", "C07"):
                role = f"{prop}:Compiler::{name}:node-holds-its-own-compiled-children-in-their-slots"
                o = Obl(role, {prop}, f"{role}#path{pi}", p, z3.BoolVal(not problems), {"problems": problems[:3], "compile_calls": [c_["arg"][:60] for c_ in calls]})
                o.ex = ex
                obls.append(o)
        if n_some == 0:
            raise Unencodable(f"Compiler::{name}: no path returns a node (vacuous)")
    return obls, sorted(set(fns))


def battery():
    out = []
    out.append(({"source": ".r = if .c == true { .ran_if = true; 1 } else { .ran_else = true; 2 }\n", "event": {"c": True}},
                {"outcome": "ok", "event_eq": {"r": {"Integer": "1"}}, "event_has": ["ran_if"], "event_lacks": ["ran_else"]}))
    out.append(({"source": ".r = if .c == true { .ran_if = true; 1 } else { .ran_else = true; 2 }\n", "event": {"c": False}},
                {"outcome": "ok", "event_eq": {"r": {"Integer": "2"}}, "event_has": ["ran_else"], "event_lacks": ["ran_if"]}))
    out.append(({"source": ".r = if .c == true { 1 }\n", "event": {"c": False}}, {"outcome": "ok", "event_eq": {"r": "Null"}}))
    out.append(({"source": ".r = (7 - 2)\n", "event": {}}, {"outcome": "ok", "event_eq": {"r": {"Integer": "5"}}}))
    return out
