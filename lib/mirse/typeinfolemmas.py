"""C08, last clause ("the stored default always belongs to ok's reported type"), compile-time side:
from the MIR of `assignment::Variant::type_info`, on every path of the Infallible arm the type recorded for
the `ok` target is  infallible(union(<type of e>, TypeDef::from(kind(default))))  -- i.e. the default's kind is
always part of it (TypeDef/Kind operations are uninterpreted, the claim is about which operations are applied
to which operands).  That `Kind::from(v)` contains v and that `union` contains its operands is C19's business."""
import re
from lemma import *
from nodelemmas import Obl

OPAQUE = [r"^<TypeState as Clone>::clone$", r"as Expression>::apply_type_info$", r"as Expression>::resolve_constant$", r"^TypeDef::\w+$",
          r"^<TypeDef as Clone>::clone$", r"^<TypeDef as From<value::kind::Kind>>::from$", r"<impl value::value::Value>::kind$",
          r"builder::<impl value::kind::Kind>::\w+$", r"^TypeInfo::new::<", r"<impl value::kind::Kind>::\w+$", r"^<TypeDef as Deref>::deref$",
          r"^<value::kind::Kind as Clone>::clone$"]


class InsertTypeDef:
    def __call__(self, ex, st, callee, args, dest_ty, frame, depth):
        tgt = args[0]
        label = (tgt.cell.lstrip("*") + "".join(f".{p[1]}" for p in tgt.path)) if isinstance(tgt, Ref) else ex.val_name(st, tgt)
        st.trace.append({"kind": "insert_type_def", "target": label, "type": ex.val_name(st, args[2]), "n": len(st.trace)})
        return [(st, Outcome("ret", UNIT))]


def obligations(S):
    obls, fns = [], []
    c = [f for f in S.prog.find("Expression", "Variant", "type_info") if "assignment.rs" in f.name]
    if len(c) != 1:
        raise Unencodable(f"Variant::type_info: {len(c)} bodies")
    f = c[0]
    ex = S.executor(oracles=[(re.compile(r"^assignment::Target::insert_type_def$"), InsertTypeDef())], opaque=OPAQUE)
    paths = ex.run(f, [ex.fresh("&assignment::Variant<assignment::Target, U>", "self"), ex.fresh("&TypeState", "state")])
    fns.append((f.name, f.text_hash))
    n_inf = 0
    for pi, p in enumerate(paths):
        d = p.st.simp(ex.discr_of("self*", "assignment::Variant"))
        if not (z3.is_bv_value(d) and d.as_long() == 1):
            continue
        n_inf += 1
        ok_ins = [e for e in p.st.trace if e["kind"] == "insert_type_def" and e["target"].endswith("Infallible.0")]
        good = False
        detail = {"ok_type": [e["type"] for e in ok_ins]}
        if p.outcome.kind == "ret" and len(ok_ins) == 1:
            t = ok_ins[0]["type"]
            good = bool(re.fullmatch(r"infallible\(union\(clone\(&?apply_type_info\(.*\)\),from\(kind\(&?self\*\.Infallible\.3\)\)\)\)", t))
        o = Obl("C08:AssignVariant[Infallible]:ok-type-includes-default-kind", {"C08"}, f"C08:ok-type#path{pi}", p, z3.BoolVal(good), detail)
        o.ex = ex
        obls.append(o)
    if n_inf == 0:
        raise Unencodable("Variant::type_info: no Infallible path (vacuous)")
    return obls, fns


def battery():
    """programs whose `ok` target has an exact collection type with required fields and whose expression fails at runtime"""
    return [({"source": ".ok, .err = parse_url(.u)\n", "event": {"u": "not a url"}}, {"outcome": "ok", "types_sound": True}),
            ({"source": "ok, err = parse_url(.u)\n.res = ok\n", "event": {"u": "::"}}, {"outcome": "ok", "types_sound": True}),
            ({"source": ".ok, .err = to_int(.s)\n", "event": {"s": "x"}}, {"outcome": "ok", "types_sound": True, "event_eq": {"ok": {"Integer": "0"}}}),
            ({"source": ".ok, .err = parse_json(.s)\n", "event": {"s": "{"}}, {"outcome": "ok", "types_sound": True})]
