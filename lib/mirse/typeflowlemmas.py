"""C01 / C02 -- type-state flow lemmas: a node's `type_info` threads the type state the way its `resolve` runs.

The compiler's type state (variable types and constants, event and metadata kinds) after a node is what later code
is checked against; it is sound only if every child is typed in the state in which it is *evaluated* and the final
state covers every runtime path through the node.  For `IfStatement` (runtime: predicate; then if-block or -- when
the predicate is false -- else-block / nothing):

    predicate   is typed in the incoming state s0                       -> s1
    if_block    is typed in s1                                          -> s2
    else_block  is typed in s1                                          -> s3
    final state = merge(s2, s3)         with an else-block
                = merge(s2, s1)         without: the predicate's effects happened even when it was false

The lemma is checked on every path of the real MIR body of `IfStatement::type_info`; `apply_type_info`/`type_info`
of children are oracles that name the state they return after the state they were given, so the provenance of
every state is a term that can be compared syntactically.

Found necessary by a seeded defect that merged the if-branch with the state from *before* the predicate."""
import re
from lemma import *
from nodelemmas import Obl
from stateflowlemmas import StateOracle, m_clone_state, m_merge, _state_name

OPAQUE = [r"^TypeDef::\w+(::<.*>)?$", r"^<TypeDef as Deref(Mut)?>::deref(_mut)?$", r"<impl value::kind::Kind>::\w+$", r"^value::kind::Kind::\w+$",
          r"^<TypeDef as Clone>::clone$", r"^<value::kind::Kind as Clone>::clone$", r"^<Kind as Clone>::clone$", r"Kind::merge_keep$",
          r"^<value::kind::Kind as ToOwned>::to_owned$"]


def m_typeinfo_new(ex, st, callee, args, dest_ty, frame, depth):
    """TypeInfo::new(state: impl Into<TypeState>, result) -- by value or by reference (then cloned)"""
    s = args[0]
    if isinstance(s, Ref) or (isinstance(s, Lazy) and is_ref(s.ty)):
        c, p = ex.deref_target(st, s)
        s = ex.read(st, c, p)
    return [(st, Outcome("ret", Agg("compiler::state::TypeInfo", {0: s, 1: args[1]})))]


def m_arc_deref(ex, st, callee, args, dest_ty, frame, depth):
    """<Arc<T> as Deref>::deref: the lemma stores the Arc's contents in their own cell and the Arc as a reference to it"""
    c, p = ex.deref_target(st, args[0])
    v = ex.read(st, c, p)
    if isinstance(v, Ref):
        return [(st, Outcome("ret", Ref(dest_ty, v.cell, v.path)))]
    raise Unencodable(f"Arc::deref of {v!r} (the lemma must supply the contents)")


ORACLES = [(re.compile(r"as Expression>::(apply_type_info|type_info|resolve_constant)$"), StateOracle()),
           (re.compile(r"^<Arc<.*> as Deref>::deref$"), m_arc_deref),
           (re.compile(r"^<TypeState as Clone>::clone$"), m_clone_state),
           (re.compile(r"TypeState::merge$"), m_merge),
           (re.compile(r"^TypeInfo::new::<"), m_typeinfo_new)]


def _norm(s):
    return re.sub(r"#\d+", "", s)


def _after(label, s):
    return f"after[{label}]({s})"


def if_statement(S):
    obls, fns = [], []
    f = S.method("Expression", "IfStatement", "type_info")
    fields = list(S.types.struct_fields("IfStatement", "compiler::expression::if_statement") or [])
    if fields != ["predicate", "if_block", "else_block"]:
        raise Unencodable(f"IfStatement fields changed: {fields}")
    ex = S.executor(oracles=ORACLES, opaque=OPAQUE)
    ex.feas_timeout_ms = 200
    paths = ex.run(f, [ex.fresh("&if_statement::IfStatement", "self"), ex.fresh("&TypeState", "state0")])
    fns.append((f.name, f.text_hash))
    for n_, h in ex.stats["fns_entered"].items():
        fns.append((n_, h))
    PRED, IFB, ELSE = "self.0", "self.1", "self.2.Some.0"
    n_else = n_noelse = 0
    for pi, p in enumerate(paths):
        bad = []
        if p.outcome.kind != "ret":
            bad.append(f"{p.outcome.kind}: {p.outcome.msg}")
            final = None
        else:
            ti = p.outcome.value
            final = _norm(ex.val_name(p.st, ex.agg_field(p.st, ti, 0, "compiler::state::TypeState")))
        calls = [(e["kind"], e["child"], _norm(e["state"])) for e in p.st.trace]
        s0 = "state0*"
        s1 = _after(PRED, s0)
        s2 = _after(IFB, s1)
        s3 = _after(ELSE, s1)
        has_else = any(c[1] == ELSE for c in calls)
        d = p.st.simp(ex.discr_of("self*.2", "std::option::Option<compiler::expression::block::Block>"))
        if z3.is_bv_value(d):
            has_else_by_discr = d.as_long() == 1
            if has_else_by_discr != has_else:
                bad.append(f"else_block is {'Some' if has_else_by_discr else 'None'} but its type_info was {'called' if has_else else 'not called'}")
        exp_calls = [(PRED, s0), (IFB, s1)] + ([(ELSE, s1)] if has_else else [])
        got_calls = [(c[1], c[2]) for c in calls if c[0] in ("apply_type_info", "type_info")]
        if got_calls != exp_calls:
            bad.append(f"children typed as {got_calls}, expected {exp_calls}")
        if final is not None:
            want = {f"merge({s2},{s3})", f"merge({s3},{s2})"} if has_else else {f"merge({s2},{s1})", f"merge({s1},{s2})"}
            if final not in want:
                bad.append(f"final state {final}, expected one of {sorted(want)}")
        if has_else:
            n_else += 1
        else:
            n_noelse += 1
        role = f"C01:IfStatement::type_info[{'else' if has_else else 'no-else'}]:state-follows-the-runtime-paths"
        o = Obl(role, {"C01", "C02"}, f"{role}#path{pi}", p, z3.BoolVal(not bad), {"problems": bad[:3], "calls": calls[:6], "final_state": final})
        o.ex = ex
        obls.append(o)
    if not n_else or not n_noelse:
        raise Unencodable(f"IfStatement::type_info: paths with else {n_else}, without {n_noelse} (vacuous)")
    return obls, fns


# the typedef collections built by Array / Object / Block are irrelevant to the state flow
LIST_OPAQUE = OPAQUE + [r"LocalEnv::apply_child_scope$", r"^<LocalEnv as Clone>::clone$", r"^<Vec<TypeDef> as (Deref|IntoIterator)>::\w+$",
                        r"^core::slice::<impl \[TypeDef\]>::iter$", r"Iter<'_, TypeDef> as Iterator>::fold::<", r"IntoIter<TypeDef> as Iterator>::enumerate$",
                        r"IntoIter<(KeyString, )?TypeDef>.* as Iterator>::(map|collect)::<",
                        r"^Vec::<TypeDef>::(new|push)$", r"^BTreeMap::<KeyString, TypeDef>::(new|insert)$", r"^<BTreeMap<KeyString, TypeDef> as IntoIterator>::into_iter$",
                        r"^<KeyString as (Clone|Into<.*>)>::\w+$", r"^<usize as Into<.*>>::into$", r"^<TypeDef as Into<.*>>::into$", r"merge_keep$", r"Kind>::union$"]


def _state_term(ex, st, v):
    """a printable provenance term for a TypeState value (a named term, or a named term with fields overwritten)"""
    if isinstance(v, Agg) and v.fields:
        base = v.origin or "?"
        ov = ",".join(f"{i}:={_norm(ex.val_name(st, v.fields[i]))}" for i in sorted(v.fields))
        return f"{_norm(base)}[{ov}]"
    return _norm(ex.val_name(st, v))


def _run_list(S, ty, selfty, n, kind):
    f = S.method("Expression", ty, "type_info")
    ex = S.executor(oracles=ORACLES, opaque=LIST_OPAQUE)
    ex.feas_timeout_ms = 200
    st = State()
    items = []
    for i in range(n):
        if kind == "map":
            kc, vc = f"self.inner[{i}].key", f"self.inner[{i}]"
            st.heap[kc] = ex.fresh("KeyString", f"key{i}")
            st.heap[vc] = ex.fresh("compiler::expression::Expr", f"elem{i}")
            items.append((kc, vc))
        else:
            c = f"self.inner[{i}]"
            st.heap[c] = ex.fresh("compiler::expression::Expr", f"elem{i}")
            items.append(c)
    st.heap["*self"] = Agg(selfty.lstrip("&"), {0: Seq("Vec<Expr>", items, kind)}, origin="self*")
    paths = ex.run(f, [Ref(selfty, "*self", ()), ex.fresh("&TypeState", "state0")], st)
    fns = [(f.name, f.text_hash)] + list(ex.stats["fns_entered"].items())
    return ex, paths, fns


def lists(S, bounds):
    """Block / Array / Object: the children are typed left to right, each in the state its predecessor left; an
    Array / Object may stop after a child that never returns; a Block with its own scope hands the parent's view
    of the local variables back (`apply_child_scope(parent locals, final locals)`)"""
    obls, fns = [], []
    for ty, selfty, kind, key in (("Block", "&block::Block", "slice", "block"), ("Array", "&array::Array", "slice", "array"), ("Object", "&object::Object", "map", "array")):
        fields = list(S.types.struct_fields(ty, "compiler::expression::" + ty.lower()) or [])
        if not fields or fields[0] != "inner":
            raise Unencodable(f"{ty} fields changed: {fields}")
        total = 0
        for n in range(0 if ty != "Block" else 1, bounds.get(key, 2) + 1):
            ex, paths, fs = _run_list(S, ty, selfty, n, kind)
            fns += fs
            for pi, p in enumerate(paths):
                bad = []
                calls = [(e["kind"], e["child"], _norm(e["state"])) for e in p.st.trace]
                got = [(c[1], c[2]) for c in calls if c[0] in ("apply_type_info", "type_info")]
                states = ["state0*"]
                for i in range(n):
                    states.append(_after(f"self.inner[{i}]", states[-1]))
                exp = [(f"self.inner[{i}]", states[i]) for i in range(n)]
                final = None
                if p.outcome.kind != "ret":
                    bad.append(f"{p.outcome.kind}: {p.outcome.msg}")
                else:
                    final = _state_term(ex, p.st, ex.agg_field(p.st, p.outcome.value, 0, "compiler::state::TypeState"))
                k = len(got)
                if got != exp[:k]:
                    bad.append(f"children typed as {got}, expected a prefix of {exp}")
                elif k < n:
                    # stopped early: only allowed right after a child whose type is `never`
                    last = f"typedef[self.inner[{k - 1}]]" if k else None
                    never = [str(c) for c in p.st.pc if last and "is_never" in _norm(str(c)) and last in _norm(str(c)) and not _norm(str(c)).startswith("Not(is_never")]
                    if ty == "Block" or not never:
                        bad.append(f"stopped after {k} of {n} children without a never-typed child")
                if final is not None and not bad:
                    sk = states[k]
                    want = {sk}
                    if ty == "Block":
                        scoped = f"{sk}[0:=apply_child_scope(clone(&state0*.0),{sk}.0)]"
                        want = {sk, scoped}
                        # which one is decided by self.new_scope
                        pcs = [str(c).replace("\n", " ") for c in p.st.pc]
                        if any(c == "Not(Not(self*.1))" or c == "self*.1" for c in pcs):
                            want = {scoped}
                        elif any(c == "Not(self*.1)" for c in pcs):
                            want = {sk}
                    if final not in want:
                        bad.append(f"final state {final}, expected {sorted(want)}")
                total += 1
                role = f"C01:{ty}::type_info(n={n}):state-follows-the-runtime-paths"
                o = Obl(role, {"C01", "C02"}, f"{role}#path{pi}", p, z3.BoolVal(not bad), {"problems": bad[:3], "calls": calls[:6], "final_state": final})
                o.ex = ex
                obls.append(o)
        if not total:
            raise Unencodable(f"{ty}::type_info: no paths (vacuous)")
    return obls, fns


def wrappers(S):
    """single-child nodes: the child is typed in the incoming state and the node's final state is the child's
    (Abort / Return never continue, so the incoming state is as good)"""
    obls, fns = [], []
    for ty, selfty, child, never in (("Not", "&not::Not", None, False), ("Group", "&group::Group", None, False), ("Predicate", "&predicate::Predicate", None, False),
                                     ("Unary", "&unary::Unary", None, False), ("Container", "&container::Container", None, False),
                                     ("Return", "&return::Return", None, True), ("Abort", "&abort::Abort", None, True)):
        f = S.method("Expression", ty, "type_info")
        ex = S.executor(oracles=ORACLES, opaque=OPAQUE)
        ex.feas_timeout_ms = 200
        paths = ex.run(f, [ex.fresh(selfty, "self"), ex.fresh("&TypeState", "state0")])
        fns += [(f.name, f.text_hash)] + list(ex.stats["fns_entered"].items())
        seen = 0
        for pi, p in enumerate(paths):
            bad = []
            calls = [(e["kind"], e["child"], _norm(e["state"])) for e in p.st.trace]
            got = [(c[1], c[2]) for c in calls if c[0] in ("apply_type_info", "type_info")]
            final = None
            if p.outcome.kind != "ret":
                bad.append(f"{p.outcome.kind}: {p.outcome.msg}")
            else:
                final = _state_term(ex, p.st, ex.agg_field(p.st, p.outcome.value, 0, "compiler::state::TypeState"))
            if len(got) > 1 or any(s != "state0*" for _, s in got):
                bad.append(f"children typed as {got}, expected one child typed in the incoming state")
            if got:
                seen += 1
            want = {_after(got[0][0], "state0*")} if got else {"state0*"}
            if never or not got:
                want.add("state0*")
            if not got and not never:
                bad.append("no child was typed")
            if final is not None and final not in want:
                bad.append(f"final state {final}, expected {sorted(want)}")
            role = f"C01:{ty}::type_info:state-follows-the-runtime-paths"
            o = Obl(role, {"C01", "C02"}, f"{role}#path{pi}", p, z3.BoolVal(not bad), {"problems": bad[:3], "calls": calls[:6], "final_state": final})
            o.ex = ex
            obls.append(o)
        if not seen:
            raise Unencodable(f"{ty}::type_info: no child typing observed (vacuous)")
    return obls, fns


FC_FIELDS = ["abort_on_error", "expr", "arguments_with_unknown_type_validity", "closure_fallible", "closure", "span", "ident", "function_id", "arguments", "warnings"]


def function_call(S, bounds):
    """FunctionCall: the arguments are typed left to right, each in the state its predecessor left, then the
    function expression; when the call carries a closure, the closure body's effects on the enclosing state (it
    runs any number of times) must reach the final state too."""
    obls, fns = [], []
    fields = list(S.types.struct_fields("FunctionCall", "compiler::expression::function_call") or [])
    if fields != FC_FIELDS:
        raise Unencodable(f"FunctionCall fields changed: {fields}")
    f = S.method("Expression", "FunctionCall", "type_info")
    n_closure = 0
    for n in range(0, bounds.get("array", 2) + 1):
        ex = S.executor(oracles=ORACLES, opaque=LIST_OPAQUE + [r"^Vec::<\(.*Parameter.*\)>::is_empty$", r"^Vec::<.*>::is_empty$"])
        ex.feas_timeout_ms = 200
        st = State()
        items = []
        for i in range(n):
            c = f"self.arguments[{i}]"
            st.heap[c] = ex.fresh("parser::ast::Node<compiler::expression::function_argument::FunctionArgument>", f"arg{i}")
            items.append(c)
        st.heap["args"] = Seq("Vec<Node<FunctionArgument>>", items, "slice")
        st.heap["*self"] = Agg("compiler::expression::function_call::FunctionCall", {8: Ref("Arc<Vec<Node<FunctionArgument>>>", "args", ())}, origin="self*")
        paths = ex.run(f, [Ref("&function_call::FunctionCall", "*self", ()), ex.fresh("&TypeState", "state0")], st)
        fns += [(f.name, f.text_hash)] + list(ex.stats["fns_entered"].items())
        for pi, p in enumerate(paths):
            bad = []
            calls = [(e["kind"], e["child"], _norm(e["state"])) for e in p.st.trace]
            got = [(c[1], c[2]) for c in calls if c[0] in ("apply_type_info", "type_info")]
            final = None
            if p.outcome.kind != "ret":
                bad.append(f"{p.outcome.kind}: {p.outcome.msg}")
            else:
                final = _state_term(ex, p.st, ex.agg_field(p.st, p.outcome.value, 0, "compiler::state::TypeState"))
            d = p.st.simp(ex.discr_of("self*.4", "std::option::Option<compiler::function::closure::Closure>"))
            has_closure = z3.is_bv_value(d) and d.as_long() == 1
            arg_calls = [g for g in got if g[0].startswith("self.arguments[") or g[0].startswith("arg")]
            states = ["state0*"]
            for g in arg_calls:
                states.append(_after(g[0], states[-1]))
            if len(arg_calls) != n or [g[1] for g in arg_calls] != states[:n]:
                bad.append(f"arguments typed as {arg_calls}, expected {n} arguments threaded from the incoming state")
            rest = [g for g in got if g not in arg_calls]
            fexpr = [g for g in rest if g[0].startswith("self*.1") or g[0].startswith("self.1")]
            clo = [g for g in rest if ".4.Some" in g[0]]
            if len(fexpr) != 1 or fexpr[0][1] != states[n]:
                bad.append(f"function expression typed as {fexpr}, expected once in {states[n]}")
            role = f"C01:FunctionCall::type_info(args={n}):state-follows-the-runtime-paths"
            if not bad and final is not None:
                after_f = _after(fexpr[0][0], states[n])
                if final != after_f and not clo:
                    bad.append(f"final state {final}, expected {after_f}")
            o = Obl(role, {"C01", "C02"}, f"{role}#path{pi}", p, z3.BoolVal(not bad), {"problems": bad[:3], "calls": calls[:6], "final_state": final})
            o.ex = ex
            obls.append(o)
            if has_closure or not z3.is_bv_value(d):
                n_closure += 1
                role = "C12:FunctionCall::type_info:closure-body-effects-reach-the-state"
                ok = bool(clo)
                o = Obl(role, {"C01", "C02", "C12"}, f"{role}#args{n}#path{pi}", p, z3.BoolVal(ok),
                        {"problems": [] if ok else ["self.closure is Some but the closure block is never typed: assignments made by the closure body do not reach the state after the call"],
                         "calls": calls[:6], "final_state": final})
                o.ex = ex
                obls.append(o)
    if not n_closure:
        raise Unencodable("FunctionCall::type_info: no path with a closure (vacuous)")
    return obls, fns


def op(S):
    """Op: the lhs is typed in the incoming state, the rhs in the state the lhs left.  Eager operators (== != > >= < <=
    / + - * |) always run both operands: the final state is the rhs's.  Short-circuit operators (?? || &&) end in the
    lhs's state (rhs statically dead), the rhs's (rhs always runs) or the merge of the two."""
    obls, fns = [], []
    f = S.method("Expression", "Op", "type_info")
    import stateflowlemmas
    ex = S.executor(oracles=ORACLES, opaque=stateflowlemmas.OPAQUE + OPAQUE)
    ex.feas_timeout_ms = 200
    paths = ex.run(f, [ex.fresh("&op::Op", "self"), ex.fresh("&TypeState", "state0")])
    fns += [(f.name, f.text_hash)] + list(ex.stats["fns_entered"].items())
    vs = {k: n for n, k in S.types.enum_variants("parser::ast::Opcode")}
    LHS, RHS = "self*.0.0.0", "self*.1.0.0"
    seen = set()
    for pi, p in enumerate(paths):
        opn = "?"
        for c in p.st.pc:
            m = re.match(r"^(\d+) == discr\(self\*\.2\)$", str(c).replace("\n", " "))
            if m:
                opn = vs.get(int(m.group(1)), m.group(1))
        seen.add(opn)
        bad = []
        final = None
        if p.outcome.kind != "ret":
            bad.append(f"{p.outcome.kind}: {p.outcome.msg}")
        else:
            final = _state_term(ex, p.st, ex.agg_field(p.st, p.outcome.value, 0, "compiler::state::TypeState"))
        s0 = "state0*"
        s1, s2 = _after(LHS, s0), _after(RHS, _after(LHS, s0))
        typed = [(e["child"], _norm(e["state"])) for e in p.st.trace if e["kind"] in ("apply_type_info", "type_info")]
        if not typed or typed[0] != (LHS, s0):
            bad.append(f"first typing step {typed[:1]}, expected the lhs in the incoming state")
        for ch, stn in typed[1:]:
            if ch != RHS or stn != s1:
                bad.append(f"{ch} typed in {stn}, expected the rhs in {s1}")
        short = opn in ("Err", "Or", "And")
        want = {s1, s2, f"merge({s1},{s2})", f"merge({s2},{s1})"} if short else {s2}
        if final is not None and final not in want:
            bad.append(f"final state {final}, expected {sorted(want)}" + ("" if short else " (both operands of an eager operator run)"))
        role = f"C01:Op::type_info[{opn}]:state-follows-the-runtime-paths"
        o = Obl(role, {"C01", "C02"}, f"{role}#path{pi}", p, z3.BoolVal(not bad), {"problems": bad[:3], "typed": typed[:4], "final_state": final})
        o.ex = ex
        obls.append(o)
    if len(seen) < 14:
        raise Unencodable(f"Op::type_info: opcodes seen {sorted(seen)}")
    return obls, fns


def op_battery():
    return [
        ({"source": "y = \"s\"\n.r = (1 / (y = 5)) ?? 0\n.q = upcase(y)\n", "event": {}}, {"accepted_never_fails": True}),
        ({"source": "y = \"s\"\n.r = (1 / (y = 5)) ?? 0\n.q = y\n", "event": {}}, {"outcome": "ok", "types_sound": True}),
        ({"source": ".r = (1 / (.a = 5)) ?? 0\n.q = .a\n", "event": {"a": "s"}}, {"outcome": "ok", "types_sound": True}),
        ({"source": "y = \"s\"\n.r = 1 + (y = 5)\n.q = y\n", "event": {}}, {"outcome": "ok", "types_sound": True}),
        ({"source": "y = \"s\"\n.r = 1 == (y = 5)\n.q = y\n", "event": {}}, {"outcome": "ok", "types_sound": True}),
        ({"source": "y = \"s\"\n.r = false || (y = 5)\n.q = y\n", "event": {}}, {"outcome": "ok", "types_sound": True}),
        ({"source": "y = \"s\"\n.r = .f || (y = 5)\n.q = y\n", "event": {"f": True}}, {"outcome": "ok", "types_sound": True}),
    ]


def m_insert_type_def(ex, st, callee, args, dest_ty, frame, depth):
    """assignment::Target::insert_type_def(target, &mut state, type_def, constant): an oracle that names the new state
    after everything it was given"""
    tgt = ex.val_name(st, args[0]) if not isinstance(args[0], Ref) else args[0].cell.lstrip("*") + "".join(f".{p[1]}" for p in args[0].path)
    c, p = ex.deref_target(st, args[1])
    sname = _norm(ex.val_name(st, ex.read(st, c, p)))
    td = _norm(ex.val_name(st, args[2]))
    cv = _norm(ex.val_name(st, args[3]))
    n = len(st.trace)
    st.trace.append({"kind": "insert_type_def", "child": tgt, "state": sname, "type_def": td, "const": cv, "n": n})
    ex.write(st, c, p, ex.fresh("compiler::state::TypeState", f"ins[{tgt}]({sname},{td},{cv})"))
    return [(st, Outcome("ret", UNIT))]


def assignment(S):
    """`target = e` / `ok, err = e`: e is typed first; its constant is read in the state e *left*; the stores are
    recorded on that state in the order the runtime performs them (ok, then err) and the node's final state is
    the result of the last one."""
    obls, fns = [], []
    f = S.method("Expression", "Variant", "type_info")
    ex = S.executor(oracles=ORACLES + [(re.compile(r"^assignment::Target::insert_type_def$"), m_insert_type_def)],
                    opaque=OPAQUE + [r"^<value::value::Value as Clone>::clone$", r"DefaultValue>::default_value$", r"^value::value::Value::kind$|<impl value::value::Value>::kind$",
                                     r"<impl From<.*> for TypeDef>::from$|^<TypeDef as From<.*>>::from$", r"Kind>::(bytes|or_null|or_bytes)$"])
    ex.feas_timeout_ms = 200
    paths = ex.run(f, [ex.fresh("&assignment::Variant<assignment::Target, U>", "self"), ex.fresh("&TypeState", "state0")])
    fns += [(f.name, f.text_hash)] + list(ex.stats["fns_entered"].items())
    vs = {k: n for n, k in S.types.enum_variants("assignment::Variant", "compiler::expression::assignment")}
    seen = set()
    for pi, p in enumerate(paths):
        bad = []
        d = p.st.simp(ex.discr_of("self*", "assignment::Variant"))
        variant = vs.get(d.as_long(), "?") if z3.is_bv_value(d) else "?"
        seen.add(variant)
        tr = p.st.trace
        final = None
        if p.outcome.kind != "ret":
            bad.append(f"{p.outcome.kind}: {p.outcome.msg}")
        else:
            final = _state_term(ex, p.st, ex.agg_field(p.st, p.outcome.value, 0, "compiler::state::TypeState"))
        kinds = [e["kind"] for e in tr]
        s0 = "state0*"
        if variant == "Single":
            want_kinds = ["apply_type_info", "resolve_constant", "insert_type_def"]
        elif variant == "Infallible":
            want_kinds = ["apply_type_info", "resolve_constant", "insert_type_def", "insert_type_def"]
        else:
            want_kinds = None
            bad.append(f"unknown variant {variant}")
        if want_kinds and kinds != want_kinds:
            bad.append(f"steps {kinds}, expected {want_kinds}")
        if not bad:
            e0, e1 = tr[0], tr[1]
            s1 = _after(e0["child"], s0)
            if _norm(e0["state"]) != s0:
                bad.append(f"expression typed in {e0['state']}, expected the incoming state")
            if e1["child"] != e0["child"] or _norm(e1["state"]) != s1:
                bad.append(f"constant of {e1['child']} read in {_norm(e1['state'])}, expected the expression's constant in {s1}")
            rc = f"rc[{e0['child']}]"
            cur = s1
            stores = tr[2:]
            targets = []
            for k, e in enumerate(stores):
                if e["state"] != cur:
                    bad.append(f"store #{k} recorded on state {e['state']}, expected {cur}")
                targets.append(e["child"])
                cur = f"ins[{e['child']}]({e['state']},{e['type_def']},{e['const']})"
            if rc not in stores[0]["const"]:
                bad.append(f"first store records constant {stores[0]['const']}, expected the expression's ({rc})")
            if variant == "Single" and f"typedef[{e0['child']}]" not in stores[0]["type_def"]:
                bad.append(f"store records type {stores[0]['type_def']}, expected the expression's type")
            if variant == "Infallible":
                if not (targets[0].endswith(".0") and targets[1].endswith(".1")):
                    bad.append(f"stores recorded for {targets}, expected ok (field 0) then err (field 1), the order the runtime stores them")
                if "rc[" in stores[1]["const"]:
                    bad.append("the err target is given the expression's constant")
            if final is not None and final != cur:
                bad.append(f"final state {final}, expected {cur}")
        role = f"C01:AssignVariant::type_info[{variant}]:state-follows-the-runtime-stores"
        o = Obl(role, {"C01", "C02", "C12"}, f"{role}#path{pi}", p, z3.BoolVal(not bad),
                {"problems": bad[:3], "steps": [(e["kind"], e["child"], _norm(e["state"])[:80]) for e in tr], "final_state": final})
        o.ex = ex
        obls.append(o)
    if not {"Single", "Infallible"} <= seen:
        raise Unencodable(f"Variant::type_info: variants seen {seen} (vacuous)")
    return obls, fns


def assignment_battery():
    T = {"outcome": "ok", "types_sound": True}
    return [
        ({"source": "x = 1\nx = (x = \"s\"; 2.5)\n.r = x\n", "event": {}}, T),
        ({"source": "x = 2\nx = (x = 0; 4)\n.r = 10 / x\n", "event": {}}, {"outcome": "ok", "event_eq": {"r": {"Float": "0x4004000000000000"}}}),
        ({"source": ".res, .res.error = 1 / .zero\n.after = true\n", "event": {"zero": 0}}, T),
        ({"source": "ok, err = 1 / .zero\n.ok = ok\n.err = err\n", "event": {"zero": 0}}, T),
        ({"source": "ok, err = 1 / .zero\n.ok = ok\n.err = err\n", "event": {"zero": 2}}, T),
        ({"source": "y = 5\nx = y\ny = 0\n.r = 10 / x\n", "event": {}}, {"outcome": "ok", "event_eq": {"r": {"Float": "0x4000000000000000"}}}),
    ]


def closure_battery():
    """a closure body assigns to a variable of the enclosing scope"""
    return [
        ({"source": "x = 2\nfor_each([1]) -> |_i, _v| { x = 0 }\n.r = 10 / x\n", "event": {}}, {"accepted_never_fails": True}),
        ({"source": "x = 2\nfor_each([1]) -> |_i, _v| { x = \"s\" }\n.r = x + 1\n", "event": {}}, {"accepted_never_fails": True}),
        ({"source": "x = 2\nfor_each([1]) -> |_i, _v| { x = \"s\" }\n.r = x\n", "event": {}}, {"outcome": "ok", "types_sound": True}),
    ]


def obligations(S, bounds=None):
    obls, fns = [], []
    for g in (if_statement, wrappers, assignment, op, lambda S_: lists(S_, bounds or {"block": 3, "array": 2}), lambda S_: function_call(S_, bounds or {"block": 3, "array": 2})):
        o, f = g(S)
        obls += o
        fns += f
    return obls, sorted(set(fns))


def battery():
    """programs whose reported types depend on the state flow through an `if`; the replayer observes type membership"""
    T = {"outcome": "ok", "types_sound": True}
    return [
        ({"source": "x = 1\nif (x = \"s\"; .flag == true) { x = 2.5 }\n.r = x\n", "event": {"flag": False}}, T),
        ({"source": "x = 1\nif (x = \"s\"; .flag == true) { x = 2.5 }\n.r = x\n", "event": {"flag": True}}, T),
        ({"source": "if (.a = \"s\"; .flag == true) { .a = 2.5 }\n.r = .a\n", "event": {"flag": False}}, T),
        ({"source": "x = 1\nif .flag == true { x = \"s\" } else { x = 2.5 }\n.r = x\n", "event": {"flag": False}}, T),
        ({"source": "x = 1\nif .flag == true { x = \"s\" } else { x = 2.5 }\n.r = x\n", "event": {"flag": True}}, T),
        ({"source": "x = 1\nif .flag == true { x = \"s\" }\n.r = x\n", "event": {"flag": True}}, T),
        ({"source": "x = 1\nif (x = \"s\"; .flag == true) { x = 2.5 }\n.r = x + 1\n", "event": {"flag": False}}, {"accepted_never_fails": True}),
    ]
