"""C01 / C02 — FRAGMENT: the compiler's typing of the eager binary operators on scalar operands is sound
with respect to the runtime operators.

Engine T (native, replay/src/tables.rs) asks the *real compiler* for every eager operator
(* / + - != == >= > <= <) and every pair of non-empty operand kinds over {integer, float, bytes, boolean, null,
timestamp} (63 x 63 x 10 = 39,690 rows): is `.a OP .b` fallible, and what result kinds does it report?
That table is exhaustive over its finite domain and is only an *input*.

Engine S executes the MIR of the runtime operator (`try_mul` ... `try_le`, `eq_lossy`) on two arbitrary Values and
summarises, per pair of operand variants, which outcomes are feasible for SOME payload (the solver decides each
path's feasibility over all i64 / all non-NaN f64 payloads): Ok(result variant) or Err(error variant).

Obligation per row: for every operand-variant pair admitted by the row,
   C01: every feasible Ok outcome has a variant inside the reported result kinds;
   C02: if the row is reported infallible, no Err outcome is feasible except ValueError::NanFloat (the documented exception).
Variables, paths, blocks, if/else, closures, function calls and collection kinds are NOT covered."""
import re, json
from lemma import *
from nodelemmas import Obl
import arithlemmas

VAL = "value::value::Value"
VERR = "compiler::value::error::ValueError"
RESV = "std::result::Result<value::value::Value, compiler::value::error::ValueError>"
SCALARS = ["Integer", "Float", "Bytes", "Boolean", "Null", "Timestamp"]     # bit order of the table masks
OPFN = {"*": "try_mul", "/": "try_div", "+": "try_add", "-": "try_sub", ">=": "try_ge", ">": "try_gt", "<=": "try_le", "<": "try_lt", "==": "eq_lossy", "!=": "eq_lossy"}

OPAQUE = [r"<impl value::value::Value>::kind$", r"^(core|std)::slice::<impl \[u8\]>::repeat$", r"^<bytes::Bytes as From<Vec<u8>>>::from$",
          r"^BytesMut::", r"^<BytesMut as BufMut>::", r"^<bytes::Bytes as Deref>::deref$",
          r"^<.* as PartialOrd>::(gt|ge|lt|le)$", r"^<.* as PartialEq>::eq$", r"builder::<impl value::kind::Kind>::\w+$",
          r"^<bytes::Bytes as Clone>::clone$", r"^<DateTime<Utc> as Clone>::clone$", r"^<value::value::Value as PartialEq>::eq$"]


def feasible_variants(ex, p, v):
    out = []
    d = ex.discriminant(p.st, v)
    for n, k in ex.types.enum_variants(VAL):
        s = z3.Solver()
        s.set("timeout", 2000)
        for c in p.st.pc:
            if "discr(" in str(c) and "fp" not in str(c):
                s.add(c)
        s.add(d == bv64(k))
        if s.check() != z3.unsat:
            out.append(n)
    return out


def summaries(S):
    """op function -> {(va, vb): set of ('Ok', variant) | ('Err', variant) | ('panic', msg)}"""
    out, fns = {}, []
    vnames = {k: n for n, k in S.types.enum_variants(VAL)}
    enames = {k: n for n, k in S.types.enum_variants(VERR, "compiler::value::error")}
    for fname in sorted(set(OPFN.values())):
        f = S.method("VrlValueArithmetic", "Value", fname)
        ex = S.executor(oracles=arithlemmas.ORACLES, opaque=OPAQUE)
        byref = fname == "eq_lossy"
        a = ex.fresh(("&" if byref else "") + VAL, "a")
        b = ex.fresh(("&" if byref else "") + VAL, "b")
        paths = ex.run(f, [a, b])
        fns.append((f.name, f.text_hash))
        for n_, h in ex.stats["fns_entered"].items():
            fns.append((n_, h))
        av = Lazy(VAL, "a*") if byref else a
        bv = Lazy(VAL, "b*") if byref else b
        summ = {}
        for p in paths:
            if p.outcome.kind == "ret":
                r = p.outcome.value
                if byref:
                    oc = ("Ok", "Boolean")
                else:
                    d = p.st.simp(ex.discriminant(p.st, r))
                    if not z3.is_bv_value(d):
                        oc = ("Ok", "?")
                    elif d.as_long() == 0:
                        okv = ex.enum_field(p.st, r, "Ok", 0, VAL)
                        dv = p.st.simp(ex.discriminant(p.st, okv))
                        oc = ("Ok", vnames.get(dv.as_long(), "?") if z3.is_bv_value(dv) else "?")
                    else:
                        ev_ = ex.enum_field(p.st, r, "Err", 0, VERR)
                        de = p.st.simp(ex.discriminant(p.st, ev_))
                        oc = ("Err", enames.get(de.as_long(), "?") if z3.is_bv_value(de) else "?")
            else:
                oc = ("panic", p.outcome.msg or p.outcome.kind)
            for va in feasible_variants(ex, p, av):
                for vb in feasible_variants(ex, p, bv):
                    summ.setdefault((va, vb), set()).add(oc)
        out[fname] = summ
    return out, fns


def load_table():
    import vrl_replay
    t = vrl_replay.tables("optable")
    if not t or "rows" not in t:
        raise Unencodable("operator table (engine T) unavailable")
    return t


def obligations(S):
    table = load_table()
    summ, fns = summaries(S)
    results = []     # (prop, role, ok, detail)
    n_rows = 0
    for row in table["rows"]:
        if "error" in row:
            results.append(("C01", f"C01:optable:{row['op']}:row-not-compilable", False, row))
            continue
        n_rows += 1
        op, ka, kb = row["op"], row["ka"], row["kb"]
        fn = OPFN[op]
        allowed = {SCALARS[i] for i in range(6) if row["result"] >> i & 1}
        bad01, bad02 = [], []
        for i in range(6):
            if not ka >> i & 1:
                continue
            for j in range(6):
                if not kb >> j & 1:
                    continue
                for oc in summ[fn].get((SCALARS[i], SCALARS[j]), {("missing", "no path")}):
                    if oc[0] == "Ok":
                        if oc[1] not in allowed:
                            bad01.append((SCALARS[i], SCALARS[j], oc))
                    elif oc[0] == "Err":
                        if not row["fallible"] and oc[1] != "NanFloat":
                            bad02.append((SCALARS[i], SCALARS[j], oc))
                    else:
                        bad01.append((SCALARS[i], SCALARS[j], oc))
        results.append(("C01", f"C01:optable:{op}:result-kind-covers-runtime-results", not bad01, {"row": row, "bad": bad01[:3]}))
        results.append(("C02", f"C02:optable:{op}:infallible-means-no-runtime-error", not bad02, {"row": row, "bad": bad02[:3]}))
    return results, fns, {"rows": n_rows, "summary": {k: {f"{a}x{b}": sorted(map(str, v)) for (a, b), v in s.items() if a in SCALARS and b in SCALARS} for k, s in summ.items()}}


# ----------------------------------------------------------------------------- native replay

REP = {"Integer": [7, -(1 << 63), 0], "Float": [1.5, 0.0], "Bytes": ["ab"], "Boolean": [True], "Null": [None], "Timestamp": ["TS"]}


def replay_specs(detail):
    """programs `.r = .a OP .b` typed with the row's kinds, on events holding representatives of the offending variants"""
    row = detail["row"]
    specs = []
    for va, vb, oc in detail.get("bad", [])[:2]:
        for xa in REP.get(va, [0]):
            for xb in REP.get(vb, [0]):
                ev = {}
                pre = ""
                for name, v, x in (("a", va, xa), ("b", vb, xb)):
                    if v == "Timestamp":
                        pre += f".{name} = t'2020-01-01T00:00:00Z'\n"
                    else:
                        ev[name] = x
                specs.append(({"source": pre + f".r = .a {row['op']} .b\n", "event": ev, "env_kinds": {"a": row["ka"], "b": row["kb"]}},
                              {"accepted_never_fails": True, "types_sound": True}))
    return specs[:12]
