"""C15 — read-only paths: the compile-time guard is strong enough for what the runtime can write.

The only writers of the target are `assignment::Target::insert` (External) and `del`, both guarded at compile time by
`CompileConfig::is_read_only_path(p)` (call sites audited).  The lemma, over the MIR of `is_read_only_path`,
`OwnedTargetPath::can_start_with`, the generic `ValuePath::can_start_with` loop and `OwnedSegment::can_start_with`:

    for one read-only entry q (recursive or not) and a written path p, each of 0..L segments, every segment an
    arbitrary Field(name) or Index(isize):      is_read_only_path(p) = false   ==>   writing p cannot change the
    value at q (nor, for recursive q, anything below q)

"cannot change" is the harness-side relation *under runtime aliasing*: two index segments denote the same element
for some array length iff they are equal or have different signs (`[-1]` is `[2]` in a 3-element array); two field
segments iff their names are equal.  Writing p changes the value at q iff p is a prefix-alias of q (p covers q) or,
for recursive q, q is a prefix-alias of p.  For a NON-recursive q a write strictly below q is allowed by the
documented meaning of `recursive = false` and is not counted."""
import re
from lemma import *
from nodelemmas import Obl

SEG = "path::owned::OwnedSegment"


def _v(ex, st, x):
    if isinstance(x, Ref) or (isinstance(x, Lazy) and is_ref(x.ty)):
        c, p = ex.deref_target(st, x)
        return ex.read(st, c, p)
    return x


def m_into_iter(ex, st, callee, args, dest_ty, frame, depth):
    s = _v(ex, st, args[0])
    if isinstance(s, IterVal):
        return [(st, Outcome("ret", s))]
    if not isinstance(s, Seq):
        raise Unencodable(f"into_iter on {s!r}")
    return [(st, Outcome("ret", IterVal(dest_ty, s.items, s.kind)))]


def m_iter_next(ex, st, callee, args, dest_ty, frame, depth):
    c, p = ex.deref_target(st, args[0])
    it = ex.read(st, c, p)
    if not isinstance(it, IterVal):
        raise Unencodable(f"next on {it!r}")
    if not it.items:
        return [(st, Outcome("ret", Enum(dest_ty, bv64(0), {})))]
    ex.write(st, c, p, IterVal(it.ty, it.items[1:], it.kind))
    first = it.items[0]
    by_value = "IntoIter" in callee
    item = st.heap[first] if by_value else Ref("&T", first, ())
    return [(st, Outcome("ret", ex.mk_enum(dest_ty, "Some", [item])))]


def m_to_owned_value_path(ex, st, callee, args, dest_ty, frame, depth):
    """&OwnedValuePath -> Ok(clone): the segments are already owned segments"""
    v = _v(ex, st, args[0])
    v = _v(ex, st, v)
    return [(st, Outcome("ret", ex.mk_enum(dest_ty, "Ok", [v])))]


def m_field_eq(ex, st, callee, args, dest_ty, frame, depth):
    a, b = _v(ex, st, _v(ex, st, args[0])), _v(ex, st, _v(ex, st, args[1]))
    na, nb = ex.val_name(st, a), ex.val_name(st, b)
    if na == nb:
        return [(st, Outcome("ret", Prim("bool", z3.BoolVal(True))))]
    x, y = sorted([na, nb])
    return [(st, Outcome("ret", Prim("bool", z3.Bool(f"field_eq({x},{y})"))))]


def m_path_eq(ex, st, callee, args, dest_ty, frame, depth):
    """<&OwnedTargetPath as PartialEq>::eq: same prefix, same number of segments, segments pairwise equal"""
    a, b = _v(ex, st, _v(ex, st, args[0])), _v(ex, st, _v(ex, st, args[1]))
    pa = ex.agg_field(st, a, 0, "PathPrefix")
    pb = ex.agg_field(st, b, 0, "PathPrefix")
    sa = ex.agg_field(st, ex.agg_field(st, a, 1, "OwnedValuePath"), 0, "Vec<OwnedSegment>")
    sb = ex.agg_field(st, ex.agg_field(st, b, 1, "OwnedValuePath"), 0, "Vec<OwnedSegment>")
    if len(sa.items) != len(sb.items):
        return [(st, Outcome("ret", Prim("bool", z3.BoolVal(False))))]
    conj = [ex.discriminant(st, pa) == ex.discriminant(st, pb)]
    for x, y in zip(sa.items, sb.items):
        conj.append(seg_equal(ex, st, st.heap[x], st.heap[y]))
    return [(st, Outcome("ret", Prim("bool", z3.And(conj))))]


def seg_parts(ex, st, s):
    d = ex.discriminant(st, s)
    idx = ex.enum_field(st, s, "Index", 0, "isize").e
    fld = ex.enum_field(st, s, "Field", 0, "KeyString")
    return d, idx, ex.val_name(st, fld)


def _feq(na, nb):
    if na == nb:
        return z3.BoolVal(True)
    x, y = sorted([na, nb])
    return z3.Bool(f"field_eq({x},{y})")


def seg_equal(ex, st, a, b):
    da, ia, fa = seg_parts(ex, st, a)
    db, ib, fb = seg_parts(ex, st, b)
    return z3.And(da == db, z3.If(da == bv64(1), ia == ib, _feq(fa, fb)))


def seg_may_alias(ex, st, a, b):
    """the two segments can denote the same child of some value"""
    da, ia, fa = seg_parts(ex, st, a)
    db, ib, fb = seg_parts(ex, st, b)
    idx_alias = z3.Or(ia == ib, z3.And(ia < 0, ib >= 0), z3.And(ib < 0, ia >= 0))
    return z3.And(da == db, z3.If(da == bv64(1), idx_alias, _feq(fa, fb)))


ORACLES = [
    (re.compile(r"as IntoIterator>::into_iter$"), m_into_iter),
    (re.compile(r"(Iter<'_, .*>|IntoIter<.*>) as Iterator>::next$"), m_iter_next),
    (re.compile(r"as ValuePath<'_>>::to_owned_value_path$"), m_to_owned_value_path),
    (re.compile(r"^<&KeyString as PartialEq>::eq$|^<KeyString as PartialEq>::eq$"), m_field_eq),
    (re.compile(r"^<&OwnedTargetPath as PartialEq>::eq$"), m_path_eq),
]


def mk_path(ex, st, name, nseg):
    cells = []
    for i in range(nseg):
        c = f"{name}.seg[{i}]"
        st.heap[c] = ex.fresh(SEG, f"{name}{i}")
        cells.append(c)
    vp = Agg("path::owned::OwnedValuePath", {0: Seq("Vec<OwnedSegment>", cells)})
    tp = Agg("path::owned::OwnedTargetPath", {0: ex.fresh("path::PathPrefix", f"{name}.prefix"), 1: vp})
    st.heap[name] = tp
    return Ref("&OwnedTargetPath", name, ()), cells


def obligations(S, L=2):
    obls, fns = [], []
    c = S.prog.find(None, "CompileConfig", "is_read_only_path")
    if len(c) != 1:
        raise Unencodable(f"is_read_only_path: {len(c)} bodies")
    f = c[0]
    fns.append((f.name, f.text_hash))
    flds = S.types.struct_fields("ReadOnlyPath", "compiler::compile_config")
    if flds != ["path", "recursive"]:
        raise Unencodable(f"ReadOnlyPath fields changed: {flds}")
    cfg_fields = S.types.struct_fields("CompileConfig", "compiler::compile_config")
    if "read_only_paths" not in (cfg_fields or []):
        raise Unencodable(f"CompileConfig fields changed: {cfg_fields}")
    ro_idx = cfg_fields.index("read_only_paths")
    def harm(ex, st, ps, pname, qname, qcells, recursive):
        same_prefix = ex.discriminant(st, ex.agg_field(st, st.heap[pname], 0, "PathPrefix")) == ex.discriminant(st, ex.agg_field(st, st.heap[qname], 0, "PathPrefix"))
        qs = [st.heap[c_] for c_ in qcells]
        np_, nq = len(ps), len(qs)
        covers = z3.And([same_prefix] + [seg_may_alias(ex, st, a, b) for a, b in zip(ps, qs)]) if np_ <= nq else z3.BoolVal(False)
        strictly_below = z3.And([same_prefix] + [seg_may_alias(ex, st, a, b) for a, b in zip(ps, qs)]) if np_ > nq else z3.BoolVal(False)
        harmful = z3.Or(covers, z3.And(recursive, strictly_below))
        exact_cover = z3.And([same_prefix] + [seg_equal(ex, st, a, b) for a, b in zip(ps, qs)]) if np_ <= nq else z3.BoolVal(False)
        exact_below = z3.And([same_prefix] + [seg_equal(ex, st, a, b) for a, b in zip(ps, qs)]) if np_ > nq else z3.BoolVal(False)
        harmful_exact = z3.Or(exact_cover, z3.And(recursive, exact_below))
        return harmful, harmful_exact, same_prefix

    # configurations: one entry (q) with 0..L segments, and two entries (q, r) with 0..L2 segments each, in both
    # iteration orders (the BTreeSet's order depends on the entries' values)
    L2 = min(L, 2)
    configs = [((nq,), np_) for nq in range(0, L + 1) for np_ in range(0, L + 1)]
    configs += [((nq, nr), np_) for nq in range(0, L2 + 1) for nr in range(0, L2 + 1) for np_ in range(0, L2 + 1)]
    for entries, np_ in configs:
            ex = S.executor(oracles=ORACLES, opaque=[])
            st = State()
            pref, pcells = mk_path(ex, st, "p", np_)
            ro_cells, info = [], []
            for ei, nq in enumerate(entries):
                name = "qr"[ei]
                qref, qcells = mk_path(ex, st, name, nq)
                recursive = z3.Bool(f"{name}.recursive")
                st.heap[f"ro{ei}"] = Agg("compiler::compile_config::ReadOnlyPath", {0: st.heap[name], 1: Prim("bool", recursive)})
                ro_cells.append(f"ro{ei}")
                info.append((name, qcells, recursive))
            st.heap["cfg"] = Agg("compiler::compile_config::CompileConfig", {ro_idx: Seq("BTreeSet<ReadOnlyPath>", ro_cells)}, origin="cfg*")
            paths = ex.run(f, [Ref("&CompileConfig", "cfg", ()), pref], st)
            for n_, h in ex.stats["fns_entered"].items():
                fns.append((n_, h))
            tagc = "+".join(str(x) for x in entries)
            for pi, p in enumerate(paths):
                def add(tag, post, detail=None):
                    role = f"C15:{tag}"
                    o = Obl(role, {"C15"}, f"{role}#entries{tagc}p{np_}#path{pi}", p, post, {"entry_segments": list(entries), "p_segments": np_, **(detail or {})})
                    o.ex = ex
                    obls.append(o)
                if p.outcome.kind != "ret":
                    add(f"is_read_only_path:{p.outcome.kind}", z3.BoolVal(False), {"msg": p.outcome.msg})
                    continue
                res = p.outcome.value.e
                ps = [p.st.heap[c_] for c_ in pcells]
                hs = [harm(ex, p.st, ps, "p", name, qcells, rec) for name, qcells, rec in info]
                harmful = z3.Or([h[0] for h in hs])
                harmful_exact = z3.Or([h[1] for h in hs])
                multi = "" if len(entries) == 1 else "[two entries]"
                add(f"guard-rejects-every-overlapping-write(exact segments){multi}", z3.Implies(harmful_exact, res))
                add("guard-rejects-every-overlapping-write(negative-index aliasing)", z3.Implies(z3.And(harmful, z3.Not(harmful_exact)), res))
                add("guard-accepts-a-path-in-the-other-prefix", z3.Implies(z3.And([z3.Not(h[2]) for h in hs]), z3.Not(res)))
    # the two entries may also be listed in the other order
    return obls, sorted(set(fns))


def audit_guard_call_sites():
    """every writer of the target is compiled behind is_read_only_path"""
    import os, common
    problems = []
    a = open(os.path.join(common.REPO, "src/compiler/expression/assignment.rs")).read()
    if not re.search(r"fn verify_mutable\b.*?is_read_only_path", a, re.S) and "is_read_only_path(target_path)" not in a:
        problems.append("assignment.rs: no is_read_only_path guard found")
    d = open(os.path.join(common.REPO, "src/stdlib/del.rs")).read()
    if "is_read_only_path" not in d:
        problems.append("del.rs: no is_read_only_path guard found")
    return problems


def replayer(o, model):
    """programs: the read-only path and the written path of the counterexample shape, on an event where they alias"""
    role = o.role
    if "negative-index aliasing" in role:
        variants = [
            ("run", {"source": ".a[-1] = 9\n", "event": {"a": [1, 2, 3]}, "read_only": [[".a[2]", False]]}, {"if_compiled_event_eq": {"a": {"Array": [{"Integer": "1"}, {"Integer": "2"}, {"Integer": "3"}]}}}),
        ]
        return variants[0]
    if "two entries" in role:
        return ("run", {"source": ".a.b.c = 2\n", "event": {"a": {"b": {"c": 1}}}, "read_only": [[".a", False], [".a.b", True]]},
                {"if_compiled_event_eq": {"a": {"Object": {"b": {"Object": {"c": {"Integer": "1"}}}}}}})
    if "exact segments" in role:
        return ("run", {"source": ".a.b = 9\n.a = 1\n", "event": {"a": {"b": 1}}, "read_only": [[".a", True]]}, {"if_compiled_event_eq": {"a": {"Object": {"b": {"Integer": "1"}}}}})
    if "other-prefix" in role:
        return ("run", {"source": ".a = 9\n", "event": {"a": 1}, "read_only": [["%a", True]]}, {"outcome": "ok", "event_eq": {"a": {"Integer": "9"}}})
    return None
