"""C10, engine S half: operator *dispatch* for the comparison kernels on every operand-variant pair.

Kani (engine K) proves the integer/float/mixed comparisons value-for-value.  For bytes and timestamps the
comparison itself is third-party code (`bytes::Bytes`, `chrono::DateTime` PartialOrd/PartialEq); what VRL owns is
which comparison it applies to which operands.  From the MIR of try_gt/ge/lt/le and eq_lossy:

   (Bytes, Bytes), (Timestamp, Timestamp):  try_OP yields Ok(Boolean(<OP>(lhs payload, rhs payload))) with the
        matching std operator (gt for >, ge for >=, ...), operands in order
   (Bytes|Timestamp, other kind):           an error, never a value
   non-numeric `==`:                         Value's structural equality on the two operands
   Integer/Float pairs:                      the z3 comparison of the payloads (cross-check of the Kani harnesses)"""
import re
from lemma import *
from nodelemmas import Obl
import arithlemmas

VAL = "value::value::Value"
RESV = "std::result::Result<value::value::Value, compiler::value::error::ValueError>"
OPS = {"try_gt": "gt", "try_ge": "ge", "try_lt": "lt", "try_le": "le"}
OPAQUE = [r"<impl value::value::Value>::kind$", r"^<&?(bytes::Bytes|DateTime<Utc>) as PartialOrd>::(gt|ge|lt|le)$", r"^<&?(bytes::Bytes|DateTime<Utc>|value::value::Value) as PartialEq>::eq$", r"builder::<impl value::kind::Kind>::\w+$",
          r"^<bytes::Bytes as Clone>::clone$", r"^<DateTime<Utc> as Clone>::clone$", r"^<value::value::Value as PartialEq>::eq$"]


def m_notnan_cmp(ex, st, callee, args, dest_ty, frame, depth):
    op = callee.split("::")[-1]

    def inner(x):
        while isinstance(x, Ref) or (isinstance(x, Lazy) and is_ref(x.ty)):
            c, p = ex.deref_target(st, x)
            x = ex.read(st, c, p)
        return ex.agg_field(st, x, 0, "f64").e
    x, y = inner(args[0]), inner(args[1])
    e = {"gt": z3.fpGT, "ge": z3.fpGEQ, "lt": z3.fpLT, "le": z3.fpLEQ, "eq": z3.fpEQ}[op](x, y)
    return [(st, Outcome("ret", Prim("bool", e)))]


CMP_ORACLES = arithlemmas.ORACLES + [(re.compile(r"^<&?NotNan<f64> as Partial(Ord|Eq)>::(gt|ge|lt|le|eq)$"), m_notnan_cmp)]


def obligations(S):
    obls, fns = [], []
    for fname, std in OPS.items():
        f = S.method("VrlValueArithmetic", "Value", fname)
        ex = S.executor(oracles=CMP_ORACLES, opaque=OPAQUE)
        a, b = ex.fresh(VAL, "a"), ex.fresh(VAL, "b")
        paths = ex.run(f, [a, b])
        fns.append((f.name, f.text_hash))
        for n_, h in ex.stats["fns_entered"].items():
            fns.append((n_, h))
        for pi, p in enumerate(paths):
            def add(tag, post, detail=None):
                role = f"C10:{fname}:{tag}"
                o = Obl(role, {"C10"}, f"{role}#path{pi}", p, post, detail)
                o.ex = ex
                obls.append(o)
            if p.outcome.kind != "ret":
                add(p.outcome.kind, z3.BoolVal(False), {"msg": p.outcome.msg})
                continue
            v = V(ex, p.st)
            r = p.outcome.value
            va = arithlemmas.variant_on_path(ex, p, a)
            vb = arithlemmas.variant_on_path(ex, p, b)
            nm = ex.val_name(p.st, r)
            is_ok = v.is_variant(r, "Ok", RESV)
            if va in ("Bytes", "Timestamp"):
                if vb == va:
                    # Ok(Boolean(op(&a.payload, &try_x(b).Ok.0)))  -- operands in order, matching operator
                    pat = rf"^Ok\(Boolean\({std}\(&?a\.{va}\.0,&?.*b.*\)\)\)$"
                    good = bool(re.match(pat, nm)) and not re.search(r"\b(gt|ge|lt|le)\(", nm.replace(f"{std}(", "", 1))
                    add(f"{va}x{vb}-applies-{std}-in-order", z3.BoolVal(good), {"result": nm[:160]})
                elif vb is not None:
                    add(f"{va}x{vb}-is-an-error", z3.Not(is_ok), {"result": nm[:120]})
            elif va in ("Integer", "Float") and vb in ("Integer", "Float"):
                s = arithlemmas.Spec(ex, p, a, b)
                x = arithlemmas.to_f(s.ai) if va == "Integer" else s.af
                y = arithlemmas.to_f(s.bi) if vb == "Integer" else s.bf
                if va == "Integer" and vb == "Integer":
                    want = {"gt": s.ai > s.bi, "ge": s.ai >= s.bi, "lt": s.ai < s.bi, "le": s.ai <= s.bi}[std]
                else:
                    want = {"gt": z3.fpGT(x, y), "ge": z3.fpGEQ(x, y), "lt": z3.fpLT(x, y), "le": z3.fpLEQ(x, y)}[std]
                okv = v.field(r, "Ok", 0, VAL)
                post = z3.And(is_ok, v.is_variant(okv, "Boolean", VAL), ex.enum_field(p.st, okv, "Boolean", 0, "bool").e == want)
                add(f"{va}x{vb}-value", post)
            elif va is not None and va not in ("Integer", "Float", "Bytes", "Timestamp"):
                add(f"{va}-lhs-is-an-error", z3.Not(is_ok), {"result": nm[:120]})
    # eq_lossy
    f = S.method("VrlValueArithmetic", "Value", "eq_lossy")
    ex = S.executor(oracles=arithlemmas.ORACLES, opaque=OPAQUE + [r"VrlValueConvert>::try_into_f64$"])
    ex2 = S.executor(oracles=CMP_ORACLES, opaque=OPAQUE)
    for exx, label in ((ex2, "numeric"),):
        a, b = exx.fresh("&" + VAL, "a"), exx.fresh("&" + VAL, "b")
        paths = exx.run(f, [a, b])
        fns.append((f.name, f.text_hash))
        for n_, h in exx.stats["fns_entered"].items():
            fns.append((n_, h))
        av, bv = Lazy(VAL, "a*"), Lazy(VAL, "b*")
        for pi, p in enumerate(paths):
            def add(tag, post, detail=None):
                role = f"C10:eq_lossy:{tag}"
                o = Obl(role, {"C10"}, f"{role}#path{pi}", p, post, detail)
                o.ex = exx
                obls.append(o)
            if p.outcome.kind != "ret":
                add(p.outcome.kind, z3.BoolVal(False), {"msg": p.outcome.msg})
                continue
            va = arithlemmas.variant_on_path(exx, p, av)
            vb = arithlemmas.variant_on_path(exx, p, bv)
            res = p.outcome.value
            s = arithlemmas.Spec.__new__(arithlemmas.Spec)
            ai = exx.enum_field(p.st, av, "Integer", 0, "i64").e
            bi = exx.enum_field(p.st, bv, "Integer", 0, "i64").e
            af = exx.agg_field(p.st, exx.enum_field(p.st, av, "Float", 0, "ordered_float::NotNan<f64>"), 0, "f64").e
            bf = exx.agg_field(p.st, exx.enum_field(p.st, bv, "Float", 0, "ordered_float::NotNan<f64>"), 0, "f64").e
            if va == "Integer" and vb == "Integer":
                add("IntegerxInteger-is-exact", res.e == (ai == bi))
            elif va in ("Integer", "Float") and vb in ("Integer", "Float"):
                x = arithlemmas.to_f(ai) if va == "Integer" else af
                y = arithlemmas.to_f(bi) if vb == "Integer" else bf
                add(f"{va}x{vb}-is-float-equality-of-the-converted-operands", res.e == z3.fpEQ(x, y))
            elif va in ("Integer", "Float") and vb is not None:
                add(f"{va}x{vb}-is-false", res.e == z3.BoolVal(False))
            elif va is not None and va not in ("Integer", "Float"):
                nm = exx.val_name(p.st, res)
                add(f"{va}-structural-equality", z3.BoolVal(bool(re.match(r"^eq\(&?a\*?,&?b\*?\)$", nm.replace(" ", "")))), {"result": nm[:120]})
    return obls, sorted(set(fns))


def replayer(o, model):
    """one program per (operator, operand kind): equal, smaller, larger operands; expectations from the definition"""
    m = re.match(r"^C10:(try_\w+|eq_lossy):(\w+?)x(\w+?)-", o.role)
    if not m:
        return None
    fn, va, vb = m.group(1), m.group(2), m.group(3)
    sym = {"try_gt": ">", "try_ge": ">=", "try_lt": "<", "try_le": "<=", "eq_lossy": "=="}[fn]
    lit = {"Bytes": ('"a"', '"b"'), "Timestamp": ("t'2020-01-01T00:00:00Z'", "t'2021-01-01T00:00:00Z'"), "Integer": ("9007199254740992", "9007199254740993"),
           "Float": ("1.5", "2.5")}
    if va not in lit or vb not in lit:
        return None
    lo_a, hi_a = lit[va]
    lo_b, hi_b = lit[vb]
    import operator
    pyop = {">": operator.gt, ">=": operator.ge, "<": operator.lt, "<=": operator.le, "==": operator.eq}[sym]
    if va != vb:
        # mixed numeric: compare 1 (int) with 1.5 / 0.5 (float) style pairs
        pairs = [("1", "1.0", 1, 1.0), ("1", "1.5", 1, 1.5), ("2", "1.5", 2, 1.5)] if va == "Integer" else [("1.0", "1", 1.0, 1), ("1.5", "1", 1.5, 1), ("1.5", "2", 1.5, 2)]
    else:
        pairs = [(lo_a, lo_b, 0, 0), (lo_a, hi_b, 0, 1), (hi_a, lo_b, 1, 0)]
    src, exp = "", {}
    for i, (x, y, px, py) in enumerate(pairs):
        src += f".r{i} = {x} {sym} {y}\n"
        exp[f"r{i}"] = {"Boolean": bool(pyop(px, py))}
        if sym == "==":
            src += f".n{i} = {x} != {y}\n"
            exp[f"n{i}"] = {"Boolean": not bool(pyop(px, py))}
    return "run", {"source": src, "event": {}}, {"outcome": "ok", "event_eq": exp}
