"""Lemmas over the MIR of `closure::Runner::{run_key_value, run_index_value, map_key, map_value}` (engine S).

The closure body `(self.runner)(ctx)` is an oracle: it returns an arbitrary Resolved and may change every
variable (including the ones named like the closure parameters).  `RuntimeState` is modelled as a map
Ident -> Option<Value> (swap_variable / insert_variable / remove_variable, per their source definitions,
which are one-line wrappers over HashMap::{entry, insert, remove}).

  C13  after the call -- success or failure -- every parameter ident maps to what it mapped to before
  C06  body yields Err(Return{v})  =>  v is the iteration's value and the call completes normally
  C07  body yields Err(Abort)      =>  the call yields that Abort
"""
import re
from lemma import *
from nodelemmas import Obl, RES, EE, VAL, err_is, is_ok, OPAQUE, _okval

OPT_VAL = "std::option::Option<value::value::Value>"


# ----------------------------------------------------------------------------- RuntimeState model

def _key(ex, st, ident):
    v = ident
    if isinstance(v, Ref) or (isinstance(v, Lazy) and is_ref(v.ty)):
        c, p = ex.deref_target(st, v)
        v = ex.read(st, c, p)
    return ex.val_name(st, v)


def vars_lookup(ex, st, key):
    """current value of variable `key`: an Option<Value> SymVal"""
    for k, val in reversed(st.ghost.get("vars", [])):
        if k == key:
            return val
        if k == "*HAVOC*":
            return ex.fresh(OPT_VAL, f"vars_after{val}[{key}]")
        # a different ident term: the lemma assumes parameter idents are pairwise distinct (checked natively, see DESIGN)
    return ex.fresh(OPT_VAL, f"vars0[{key}]")


def vars_set(st, key, optval):
    st.ghost.setdefault("vars", []).append((key, optval))


def m_swap_variable(ex, st, callee, args, dest_ty, frame, depth):
    key = _key(ex, st, args[1])
    old = vars_lookup(ex, st, key)
    vars_set(st, key, ex.mk_enum(OPT_VAL, "Some", [args[2]]))
    st.ghost.setdefault("touched", []).append(key)
    return [(st, Outcome("ret", old))]


def m_insert_variable(ex, st, callee, args, dest_ty, frame, depth):
    key = _key(ex, st, args[1])
    vars_set(st, key, ex.mk_enum(OPT_VAL, "Some", [args[2]]))
    return [(st, Outcome("ret", UNIT))]


def m_remove_variable(ex, st, callee, args, dest_ty, frame, depth):
    key = _key(ex, st, args[1])
    vars_set(st, key, Enum(OPT_VAL, bv64(0), {}))
    return [(st, Outcome("ret", UNIT))]


def m_state_mut(ex, st, callee, args, dest_ty, frame, depth):
    return [(st, Outcome("ret", ex.fresh(dest_ty, "state")))]


def m_variable(ex, st, callee, args, dest_ty, frame, depth):
    """RuntimeState::variable(&self, &ident) -> Option<&Value> (also variable_mut)"""
    key = _key(ex, st, args[1])
    cur = vars_lookup(ex, st, key)
    out = []
    for s2, vn in ex.case_split(st, cur, OPT_VAL):
        if vn == "Some":
            c = f"var{next(ex.counter)}"
            s2.heap[c] = ex.enum_field(s2, cur, "Some", 0, VAL)
            out.append((s2, Outcome("ret", ex.mk_enum(dest_ty, "Some", [Ref("&value::value::Value", c, ())]))))
        else:
            out.append((s2, Outcome("ret", Enum(dest_ty, bv64(0), {}))))
    return out


def m_option_eq(ex, st, callee, args, dest_ty, frame, depth):
    """<Option<&Value> as PartialEq>::eq: structural on the Option, `Value == Value` is an uninterpreted relation
    (reflexive): the solver explores both answers"""
    def deref(x):
        if isinstance(x, Ref) or (isinstance(x, Lazy) and is_ref(x.ty)):
            c, p = ex.deref_target(st, x)
            return ex.read(st, c, p)
        return x
    a, b = deref(args[0]), deref(args[1])
    out = []
    for s2, va in ex.case_split(st, a, "std::option::Option<&value::value::Value>"):
        for s3, vb in ex.case_split(s2, b, "std::option::Option<&value::value::Value>"):
            if va != vb:
                out.append((s3, Outcome("ret", Prim("bool", z3.BoolVal(False)))))
            elif va == "None":
                out.append((s3, Outcome("ret", Prim("bool", z3.BoolVal(True)))))
            else:
                x = deref(ex.enum_field(s3, a, "Some", 0, "&value::value::Value"))
                y = deref(ex.enum_field(s3, b, "Some", 0, "&value::value::Value"))
                nx, ny = ex.val_name(s3, x), ex.val_name(s3, y)
                if nx == ny:
                    out.append((s3, Outcome("ret", Prim("bool", z3.BoolVal(True)))))
                else:
                    out.append((s3, Outcome("ret", Prim("bool", z3.Bool(f"value_eq({nx},{ny})")))))
    return out


class RunnerOracle:
    def __call__(self, ex, st, callee, args, dest_ty, frame, depth):
        n = len(st.trace)
        res = ex.fresh(RES, f"body{n}")
        st.trace.append({"kind": "body", "result": res, "n": n})
        vars_set(st, "*HAVOC*", n)
        return [(st, Outcome("ret", res))]


def m_ident(ex, st, callee, args, dest_ty, frame, depth):
    """Runner::ident(&self, index) -> Option<&Ident>: opaque per index (its body only reads self.variables)"""
    idx = ex.as_prim(args[1]).e
    i = st.simp(idx).as_long()
    return [(st, Outcome("ret", ex.fresh(dest_ty, f"ident{i}")))]


RUNNER_ORACLES = [
    (re.compile(r"^<T as Fn<\(&mut context::Context<'_>,\)>>::call$"), RunnerOracle()),
    (re.compile(r"^(state::)?RuntimeState::swap_variable$"), m_swap_variable),
    (re.compile(r"^(state::)?RuntimeState::insert_variable$"), m_insert_variable),
    (re.compile(r"^(state::)?RuntimeState::remove_variable$"), m_remove_variable),
    (re.compile(r"^context::Context::<'_>::state_mut$"), m_state_mut),
    (re.compile(r"^(state::)?RuntimeState::variable(_mut)?$"), m_variable),
    (re.compile(r"^<std::option::Option<&value::value::Value> as PartialEq>::eq$"), m_option_eq),
]

RUNNER_OPAQUE = OPAQUE + [
    r"^<ast::Ident as Deref>::deref$", r"^<(ast::)?Ident as (std::ops::)?Deref>::deref$",
    r"^<usize as Into<value::value::Value>>::into$",
    r"^<std::string::String as Into<value::value::Value>>::into$",
    r"^<KeyString as Into<value::value::Value>>::into$",
    r"^<KeyString as Clone>::clone$",
    r"^<std::borrow::Cow<'_, str> as Into<KeyString>>::into$",
    r"VrlValueConvert>::try_bytes_utf8_lossy$",
]

METHODS = {
    "run_key_value": [("self", "&Runner<'_, T>"), ("ctx", "&mut context::Context<'_>"), ("key", "&str"), ("value", "&value::value::Value")],
    "run_index_value": [("self", "&Runner<'_, T>"), ("ctx", "&mut context::Context<'_>"), ("index", "usize"), ("value", "&value::value::Value")],
    "map_key": [("self", "&Runner<'_, T>"), ("ctx", "&mut context::Context<'_>"), ("key", "&mut KeyString")],
    "map_value": [("self", "&Runner<'_, T>"), ("ctx", "&mut context::Context<'_>"), ("value", "&mut value::value::Value")],
}
N_PARAMS = {"run_key_value": 2, "run_index_value": 2, "map_key": 1, "map_value": 1}


def run_method(S, name, dup=False):
    cands = S.prog.find(None, "Runner", name)
    if len(cands) != 1:
        raise Unencodable(f"Runner::{name}: {len(cands)} MIR bodies")
    f = cands[0]
    import veclemmas
    ex = S.executor(oracles=RUNNER_ORACLES + [(re.compile(r"^core::slice::<impl \[.*\]>::get(_mut)?::<usize>$"), veclemmas.m_slice_get)], opaque=RUNNER_OPAQUE)
    st = State()
    cells = []
    for i in range(N_PARAMS[name]):
        c = f"variables[{i}]"
        st.heap[c] = ex.fresh("parser::ast::Ident", "ident0" if dup else f"ident{i}")     # dup: `|x, x|`
        cells.append(c)
    st.heap["variables"] = Seq("[Ident]", cells)
    st.heap["*self"] = Agg("compiler::function::closure::Runner<'_, T>", {0: Ref("&[parser::ast::Ident]", "variables", ()), 1: ex.fresh("T", "runner")})
    args = [Ref("&Runner<'_, T>", "*self", ())] + [ex.fresh(t, n) for n, t in METHODS[name][1:]]
    paths = ex.run(f, args, st)
    return ex, paths, f


def obligations(S):
    obls, fns = [], []
    src_fields = S.types.struct_fields("Runner", "compiler::function::closure")
    if src_fields != ["variables", "runner"]:
        raise Unencodable(f"Runner fields changed: {src_fields}")
    for name in METHODS:
        ex, paths, f = run_method(S, name)
        fns.append((f.name, f.text_hash))
        for n, h in ex.stats["fns_entered"].items():
            fns.append((n, h))
        for pi, p in enumerate(paths):
            v = V(ex, p.st)
            bodies = [e for e in p.st.trace if e["kind"] == "body"]

            def add(prop, tag, post, detail=None):
                role = f"{prop}:Runner::{name}:{tag}"
                o = Obl(role, {prop}, f"{role}#path{pi}", p, post, detail)
                o.ex = ex
                obls.append(o)
            if p.outcome.kind != "ret":
                add("C04", f"{p.outcome.kind}", z3.BoolVal(False), {"msg": p.outcome.msg})
                continue
            add("C04", "path-ends-in-return", z3.BoolVal(True))
            if len(bodies) != 1:
                add("C13", "body-runs-exactly-once", z3.BoolVal(False))
                continue
            r = bodies[0]["result"]
            rv = p.outcome.value
            ret_ty = "std::result::Result<T, compiler::expression_error::ExpressionError>"
            # ---- C13: parameters restored on every path.  An ident slot that is None (unnamed `_` parameter) is skipped
            for i in range(N_PARAMS[name]):
                # a parameter is bound iff it is named (the empty ident stands for `_`): `is_empty(deref(&identI))`
                named = z3.Not(z3.Bool(f"is_empty(deref(&ident{i}))"))
                key = f"ident{i}"
                final = vars_lookup(ex, p.st, key)
                init = ex.fresh(OPT_VAL, f"vars0[{key}]")
                post = z3.Implies(named, v.same(final, init))
                # split the role by how the body ended so that known findings stay specific
                for shape, cond in (("body-ok", is_ok(v, r)), ("body-error", err_is(v, r, "Error")), ("body-abort", err_is(v, r, "Abort")),
                                    ("body-return", err_is(v, r, "Return"))):
                    add("C13", f"param{i}-restored:{shape}", z3.Implies(cond, post),
                        {"final": ex.val_name(p.st, final), "initial": f"vars0[{key}]"})
            # ---- C07: abort passes through
            e_ = v.field(r, "Err", 0, EE)
            same_err = z3.And(v.is_variant(rv, "Err", ret_ty), v.same(v.field(rv, "Err", 0, EE), e_))
            add("C07", "body-abort-propagates", z3.Implies(err_is(v, r, "Abort"), same_err))
            # ---- C06: return ends the iteration with its value
            retval = v.field(e_, "Return", 1, VAL)
            if name in ("run_key_value", "run_index_value"):
                good = z3.And(v.is_variant(rv, "Ok", ret_ty), v.same(v.field(rv, "Ok", 0, VAL), retval))
                okgood = z3.And(v.is_variant(rv, "Ok", ret_ty), v.same(v.field(rv, "Ok", 0, VAL), _okval(v, r)))
            else:
                # the mutated slot receives the value
                slot = p.st.heap.get("*key" if name == "map_key" else "*value")
                if name == "map_value":
                    stored_ret = v.same(slot, retval) if slot is not None else z3.BoolVal(False)
                    stored_ok = v.same(slot, _okval(v, r)) if slot is not None else z3.BoolVal(False)
                else:
                    nm = ex.val_name(p.st, slot) if slot is not None else ""
                    stored_ret = z3.BoolVal("try_bytes_utf8_lossy" in nm and ex.val_name(p.st, retval) in nm)
                    stored_ok = z3.BoolVal("try_bytes_utf8_lossy" in nm and ex.val_name(p.st, _okval(v, r)) in nm)
                if name == "map_key":
                    # the returned value still has to be a string: a conversion error is legitimate, but the
                    # Return itself must never escape
                    escaped = z3.And(v.is_variant(rv, "Err", ret_ty), v.is_variant(v.field(rv, "Err", 0, EE), "Return", EE))
                    good = z3.And(z3.Implies(v.is_variant(rv, "Ok", ret_ty), stored_ret), z3.Not(escaped))
                else:
                    good = z3.And(v.is_variant(rv, "Ok", ret_ty), stored_ret)
                okgood = z3.Implies(v.is_variant(rv, "Ok", ret_ty), stored_ok)
            add("C06", "body-return-is-iteration-value", z3.Implies(err_is(v, r, "Return"), good))
            add("C06", "body-ok-is-iteration-value", z3.Implies(is_ok(v, r), okgood))
    # ---- C13 again with both parameters carrying the same name (`|x, x|` is accepted by the compiler)
    for name in ("run_key_value", "run_index_value"):
        ex, paths, f = run_method(S, name, dup=True)
        seen = 0
        for pi, p in enumerate(paths):
            if p.outcome.kind != "ret":
                continue
            bodies = [e for e in p.st.trace if e["kind"] == "body"]
            if len(bodies) != 1:
                continue
            seen += 1
            v = V(ex, p.st)
            named = z3.Not(z3.Bool("is_empty(deref(&ident0))"))
            final = vars_lookup(ex, p.st, "ident0")
            init = ex.fresh(OPT_VAL, "vars0[ident0]")
            role = f"C13:Runner::{name}:same-name-params-restored"
            o = Obl(role, {"C13"}, f"{role}#path{pi}", p, z3.Implies(named, v.same(final, init)), {"final": ex.val_name(p.st, final), "initial": "vars0[ident0]"})
            o.ex = ex
            obls.append(o)
        if not seen:
            raise Unencodable(f"Runner::{name} with equal parameter names: no returning path (vacuous)")
    return obls, sorted(set(fns))


# ----------------------------------------------------------------------------- witnesses for Runner roles

CALLS = {
    "run_key_value": ('for_each({"a": 1})', "|p0, p1|", None),
    "run_index_value": ("for_each([1])", "|p0, p1|", None),
    "map_key": ('map_keys({"a": 1})', "|p0|", "string"),
    "map_value": ('map_values({"a": 1})', "|p0|", "any"),
}


BOUND = {  # literal that the closure parameters are bound to by the witness calls below
    "run_key_value": ('"a"', "1"), "run_index_value": ("0", "1"), "map_key": ('"a"', None), "map_value": ("1", None)}


def _tag(lit):
    if lit.startswith('"'):
        return {"Bytes": lit.strip('"')}
    return {"Integer": lit}


def _unnamed_forms(params):
    """the same closure with some or all parameters written as the bare `_`"""
    if params == "|p0, p1|":
        return ["|_, p1|", "|p0, _|", "|_, _|"]
    if params == "|p0|":
        return ["|_|"]
    return []


def runner_witness(role):
    """role: 'C13:Runner::map_key:param0-restored:body-error' etc. -> list of (spec, expect) variants (tried in order)"""
    m = re.match(r"^(C\d+):Runner::(\w+):(.*)$", role)
    prop, method, tag = m.group(1), m.group(2), m.group(3)
    call, params, kind = CALLS[method]
    if tag == "same-name-params-restored":
        out = []
        for body in ("{ .seen = x }", "{ .seen = x; if .yes == true { return 1 }; 2 }"):
            src = f'x = "outer"\n.r = {call} -> |x, x| {body}\n.x_after = x\n'
            out.append(({"source": src, "event": {"yes": True}}, {"outcome": "ok", "event_has": ["seen"], "event_eq": {"x_after": {"Bytes": "outer"}}}))
        return out
    tail = '"s"' if kind == "string" else "6"
    if prop == "C13":
        m2 = re.match(r"param(\d)-restored:body-(\w+)", tag)
        if not m2:
            return None
        shape = m2.group(2)
        if shape == "error":
            body = "{ .ran_body = true; to_string(1 / .zero) }" if kind == "string" else "{ .ran_body = true; 1 / .zero }"
        elif shape == "return":
            body = f"{{ .ran_body = true; if .yes == true {{ return {tail} }}; {tail} }}"
        elif shape == "ok":
            body = f"{{ .ran_body = true; {tail} }}"
        else:
            return None     # after an abort nothing can observe the variables
        variants = []
        b0, b1 = BOUND[method]
        param_forms = [params]
        if params == "|p0, p1|":
            param_forms += ["|_, p1|", "|p0, _|"]       # an unnamed parameter next to a named one
        for pf, (o0, o1) in [(pf, oo) for pf in param_forms for oo in (('"outer0"', '"outer1"'), (b0, b1 or '"outer1"'))]:
            src = f"p0 = {o0}\np1 = {o1}\n"
            src += (f".r, .e = {call} -> {pf} {body}\n" if shape == "error" else f".r = {call} -> {pf} {body}\n")
            src += ".p0_after = p0\n.p1_after = p1\n"
            exp = {"outcome": "ok", "event_has": ["ran_body"], "event_eq": {"p0_after": _tag(o0), "p1_after": _tag(o1)}}
            variants.append(({"source": src, "event": {"zero": 0, "yes": True}}, exp))
        # parameters whose names start with `_` are ordinary variables: assigned in the body, they must not leak either
        if shape != "error":
            for (o0, o1) in (('"outer0"', '"outer1"'),):
                names = ("_p0", "_p1") if params == "|p0, p1|" else ("_p0",)
                pf = "|" + ", ".join(names) + "|"
                assign = "; ".join(f'{nm} = "inside"' for nm in names)
                body2 = body.replace("{ .ran_body = true;", "{ .ran_body = true; " + assign + ";", 1)
                src = "".join(f"{nm} = {o}\n" for nm, o in zip(names, (o0, o1)))
                src += f".r = {call} -> {pf} {body2}\n"
                src += "".join(f".p{i}_after = {nm}\n" for i, nm in enumerate(names))
                exp = {"outcome": "ok", "event_has": ["ran_body"], "event_eq": {f"p{i}_after": _tag(o) for i, (nm, o) in enumerate(zip(names, (o0, o1)))}}
                variants.append(({"source": src, "event": {"zero": 0, "yes": True}}, exp))
        # map_keys: the closure's result may fail the key conversion *after* the body succeeded; a non-string can only
        # reach it through the (known) hole that closure bodies' assignments are invisible to the type checker
        if method == "map_key" and shape in ("ok", "return"):
            ret = "return x" if shape == "return" else "x"
            src = ('x = "s"\nfor_each([0]) -> |_i, _v| { x = 1 }\np0 = "outer0"\n'
                   f'.r, .e = map_keys({{"a": 1, "b": 2}}) -> |p0| {{ .ran_body = true; to_int(.n); {ret} }}\n.p0_after = p0\n')
            variants.append(({"source": src, "event": {"zero": 0, "yes": True, "n": 1}}, {"outcome": "ok", "event_has": ["ran_body"], "event_eq": {"p0_after": {"Bytes": "outer0"}}}))
        # an outer variable that is unset must stay unset
        src = (f".r, .e = {call} -> {params} {body}\n" if shape == "error" else f".r = {call} -> {params} {body}\n") + ".p0_after = p0\n"
        return variants
    if prop == "C06" and tag in ("body-return-is-iteration-value", "body-ok-is-iteration-value"):
        rv = '"ret"' if kind == "string" else "5"
        body = f"{{ .ran_body = true; if .yes == true {{ return {rv} }}; .after_in = true; {tail} }}"
        src = f".r = {call} -> {params} {body}\n.after = true\n"
        exp = {"outcome": "ok", "event_has": ["ran_body", "after"], "event_lacks": ["after_in"]}
        if method == "map_value":
            exp["event_eq"] = {"r": {"Object": {"a": {"Integer": "5"}}}}
        if method == "map_key":
            exp["event_eq"] = {"r": {"Object": {"ret": {"Integer": "1"}}}}
        out = [({"source": src, "event": {"yes": True}}, exp)]
        for pf in _unnamed_forms(params):
            out.append(({"source": src.replace(params, pf), "event": {"yes": True}}, exp))
        return out
    if prop == "C07" and tag == "body-abort-propagates":
        body = f"{{ .ran_body = true; if .yes == true {{ abort }}; {tail} }}"
        src = f".r = {call} -> {params} {body}\n.after = true\n"
        exp = {"outcome": "abort", "event_has": ["ran_body"], "event_lacks": ["after"]}
        return [({"source": src.replace(params, pf), "event": {"yes": True}}, exp) for pf in [params] + _unnamed_forms(params)]
    return None


def audit_stdlib_closure_users():
    """fail-closed: every stdlib file that takes a closure drives it only through the four Runner methods"""
    import glob, os, common
    bad = {}
    users = {}
    for p in sorted(glob.glob(os.path.join(common.REPO, "src/stdlib/*.rs"))):
        src = open(p).read()
        if "closure::Runner" not in src and "Runner::new" not in src:
            continue
        name = os.path.basename(p)
        calls = set(re.findall(r"runner\s*\.\s*(\w+)\s*\(", src))
        users[name] = sorted(calls)
        extra = calls - {"run_key_value", "run_index_value", "map_key", "map_value"}
        direct = re.findall(r"\(\s*runner\s*\.\s*runner\s*\)", src)
        if extra or direct:
            bad[name] = sorted(extra) + (["direct call of runner.runner"] if direct else [])
    return users, bad
