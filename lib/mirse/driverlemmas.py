"""C07 / C06 / C13 for "every closure-taking function": lemmas over the MIR (stdlib-base build) of the stdlib
drivers `filter`, `for_each`, `map_keys`, `map_values`, with the four `Runner` methods as oracles (what the Runner
methods themselves do is runnerlemmas.py) and the collection as a list of n entries (n <= N):

   D1  the runner is invoked once per entry, in order, as long as every invocation returned Ok
   D2  the first Err returned by the runner (abort, or a failing body) ends the call: it is returned as is and the
       runner is not invoked again  -- so an `abort` inside a closure is neither intercepted nor followed by
       further iterations

`replace_with` drives its closure from a regex capture iterator (third-party engine) and is not encoded; the
syntactic audit of runnerlemmas still applies to it."""
import re
from lemma import *
from nodelemmas import Obl
import stdlemmas
from pathlemmas import m_iter_next, m_into_iter, _v

VAL = "value::value::Value"
RES = "std::result::Result<value::value::Value, compiler::expression_error::ExpressionError>"
EE = "compiler::expression_error::ExpressionError"


class RunnerMethodOracle:
    def __call__(self, ex, st, callee, args, dest_ty, frame, depth):
        method = callee.split("::")[-1]
        n = len([e for e in st.trace if e["kind"] == "runner"])
        res = ex.fresh(dest_ty, f"run{n}[{method}]")
        st.trace.append({"kind": "runner", "method": method, "result": res, "n": n})
        return [(st, Outcome("ret", res))]


def m_owned_into_iter(ex, st, callee, args, dest_ty, frame, depth):
    s = _v(ex, st, args[0])
    if isinstance(s, IterVal):
        return [(st, Outcome("ret", s))]
    if not isinstance(s, Seq):
        raise Unencodable(f"into_iter on {s!r}")
    return [(st, Outcome("ret", IterVal(dest_ty, s.items, s.kind)))]


def _item_value(ex, st, it, i):
    """the i-th item of an owning iterator, by value"""
    x = it.items[i]
    if it.kind == "map":
        k, v = x
        return Agg("(K, V)", {0: st.heap[k], 1: st.heap[v]})
    if it.kind == "enum":
        idx, cell = x
        return Agg("(usize, T)", {0: Prim("usize", z3.BitVecVal(idx, 64)), 1: st.heap[cell]})
    return st.heap[x]


def m_enumerate(ex, st, callee, args, dest_ty, frame, depth):
    it = args[0]
    return [(st, Outcome("ret", IterVal(dest_ty, [(i, c) for i, c in enumerate(it.items)], "enum")))]


def m_filter_map(ex, st, callee, args, dest_ty, frame, depth):
    it = args[0]
    return [(st, Outcome("ret", IterVal(dest_ty, it.items, it.kind, f=args[1])))]


def m_collect_filter_map(ex, st, callee, args, dest_ty, frame, depth):
    """<FilterMap<I, F> as Iterator>::collect::<Result<C, E>>: f yields Option<Result<X, E>>; stops at the first Some(Err)"""
    it = args[0]
    fc = f"clo{next(ex.counter)}"
    st.heap[fc] = it.f
    f = Ref("&mut F", fc, ())
    results = []

    def go(st, i, acc):
        if i == len(it.items):
            coll = Seq("collected", [], "slice")
            results.append((st, Outcome("ret", ex.mk_enum(dest_ty, "Ok", [ex.fresh("C", f"collected{next(ex.counter)}")]))))
            return
        for s2, o in ex.call_value(st, f, [_item_value(ex, st, it, i)], "?", frame, depth):
            if o.kind != "ret":
                results.append((s2, o))
                continue
            for s3, vn in ex.case_split(s2, o.value, "std::option::Option<T>"):
                if vn == "None":
                    go(s3, i + 1, acc)
                    continue
                inner = ex.enum_field(s3, o.value, "Some", 0, "std::result::Result<X, E>")
                for s4, vn2 in ex.case_split(s3, inner, "std::result::Result<X, E>"):
                    if vn2 == "Ok":
                        go(s4, i + 1, acc + [1])
                    else:
                        e = ex.enum_field(s4, inner, "Err", 0, EE)
                        results.append((s4, Outcome("ret", ex.mk_enum(dest_ty, "Err", [e]))))
    go(st, 0, [])
    return results


def m_retain(ex, st, callee, args, dest_ty, frame, depth):
    """BTreeMap::retain / Vec::retain(&mut coll, f): f is called on EVERY entry (it cannot short-circuit)"""
    c, p = ex.deref_target(st, args[0])
    coll = ex.read(st, c, p)
    if not isinstance(coll, Seq):
        raise Unencodable(f"retain on {coll!r}")
    f = args[1]
    if not isinstance(f, Ref):
        fc = f"clo{next(ex.counter)}"
        st.heap[fc] = f
        f = Ref("&mut F", fc, ())
    results = []

    def go(st, i, kept):
        if i == len(coll.items):
            ex.write(st, c, p, Seq(coll.ty, kept, coll.kind))
            results.append((st, Outcome("ret", UNIT)))
            return
        it = coll.items[i]
        fargs = [Ref("&K", it[0], ()), Ref("&mut V", it[1], ())] if coll.kind == "map" else [Ref("&mut T", it, ())]
        for s2, o in ex.call_value(st, f, fargs, "bool", frame, depth):
            if o.kind != "ret":
                results.append((s2, o))
                continue
            b = ex.as_prim(o.value).e
            for keep in (True, False):
                cond = b if keep else z3.Not(b)
                if ex.feasible(s2, cond):
                    s3 = s2.fork()
                    s3.assume(cond)
                    go(s3, i + 1, kept + ([it] if keep else []))
    go(st, 0, [])
    return results


def make_value_into_iter(n):
    def m(ex, st, callee, args, dest_ty, frame, depth):
        cells = []
        for i in range(n):
            c = f"item[{i}]"
            st.heap[c] = ex.fresh("value::value::iter::IterItem<'_>", f"item{i}")
            cells.append(c)
        return [(st, Outcome("ret", IterVal(dest_ty, cells, "valueiter")))]
    return m


def m_by_ref(ex, st, callee, args, dest_ty, frame, depth):
    return [(st, Outcome("ret", args[0]))]


def m_valueiter_next(ex, st, callee, args, dest_ty, frame, depth):
    r = args[0]
    c, p = ex.deref_target(st, r)
    v = ex.read(st, c, p)
    if isinstance(v, Ref):
        c, p = v.cell, v.path
        v = ex.read(st, c, p)
    if not isinstance(v, IterVal):
        raise Unencodable(f"ValueIter::next on {v!r}")
    if not v.items:
        return [(st, Outcome("ret", Enum(dest_ty, bv64(0), {})))]
    ex.write(st, c, p, IterVal(v.ty, v.items[1:], v.kind))
    return [(st, Outcome("ret", ex.mk_enum(dest_ty, "Some", [st.heap[v.items[0]]])))]


def oracles(n):
    return [
        (re.compile(r"^Runner::<'_, T>::(run_key_value|run_index_value|map_key|map_value)$"), RunnerMethodOracle()),
        (re.compile(r"<impl value::value::Value>::into_iter::<"), make_value_into_iter(n)),
        (re.compile(r"^<(&mut )?ValueIter<'_> as IntoIterator>::into_iter$"), m_by_ref),
        (re.compile(r"Iterator>::by_ref$"), m_by_ref),
        (re.compile(r"^<(&mut )?ValueIter<'_> as Iterator>::next$"), m_valueiter_next),
        (re.compile(r"^<(std::vec::)?Vec<.*> as IntoIterator>::into_iter$|^<BTreeMap<.*> as IntoIterator>::into_iter$"), m_owned_into_iter),
        (re.compile(r"IntoIter<.*> as Iterator>::enumerate$"), m_enumerate),
        (re.compile(r" as Iterator>::filter_map::<"), m_filter_map),
        (re.compile(r"^(BTreeMap|Vec|std::vec::Vec|std::collections::BTreeMap)::<.*>::retain::<"), m_retain),
        (re.compile(r"^<FilterMap<.*> as Iterator>::collect::<std::result::Result<"), m_collect_filter_map),
    ]


OPAQUE = stdlemmas.OPAQUE + [r"<impl value::value::Value>::as_boolean$", r"KeyString as (std::ops::)?Deref>::deref$", r"as std::convert::Into<value::value::Value>>::into$",
                             r"^<ValueIter<'_> as std::convert::Into<value::value::Value>>::into$|ValueIter<'_> as Into<", r"^<&str as std::convert::Into<.*ExpressionError>>::into$",
                             r"as std::convert::Into<.*Value>>::into$", r"<.* as Into<value::value::Value>>::into$"]


def run_driver(S, name, n, variant=None):
    f = stdlemmas.free_fn(S, name, name)
    ex = S.executor(oracles=oracles(n), opaque=OPAQUE)
    st = State()
    if name == "filter":
        cells = []
        for i in range(n):
            if variant == "Object":
                kc, vc = f"ent[{i}].key", f"ent[{i}]"
                st.heap[kc] = ex.fresh("KeyString", f"key{i}")
                st.heap[vc] = ex.fresh(VAL, f"val{i}")
                cells.append((kc, vc))
            else:
                c = f"ent[{i}]"
                st.heap[c] = ex.fresh(VAL, f"val{i}")
                cells.append(c)
        coll = Seq("collection", cells, "map" if variant == "Object" else "slice")
        value = ex.mk_enum(VAL, variant, [coll])
        args = [value, ex.fresh("&mut compiler::context::Context<'_>", "ctx"), ex.fresh("&Runner<'_, T>", "runner")]
    elif name == "for_each":
        args = [ex.fresh(VAL, "value"), ex.fresh("&mut compiler::context::Context<'_>", "ctx"), ex.fresh("&Runner<'_, T>", "runner")]
    else:
        args = [ex.fresh(VAL, "value"), ex.fresh("bool", "recursive"), ex.fresh("&mut compiler::context::Context<'_>", "ctx"), ex.fresh("&Runner<'_, T>", "runner")]
    paths = ex.run(f, args, st)
    return ex, paths, f


def obligations(S=None, N=2):
    S = S or stdlemmas.session()
    obls, fns = [], []
    specs = [("filter", "Object"), ("filter", "Array"), ("for_each", None), ("map_keys", None), ("map_values", None)]
    for name, variant in specs:
        for n in range(0, N + 1):
            ex, paths, f = run_driver(S, name, n, variant)
            fns.append((f.name, f.text_hash))
            for n_, h in ex.stats["fns_entered"].items():
                fns.append((n_, h))
            tag = f"{name}{'[' + variant + ']' if variant else ''}(n={n})"
            max_calls = 0
            for pi, p in enumerate(paths):
                v = V(ex, p.st)
                calls = [e for e in p.st.trace if e["kind"] == "runner"]
                max_calls = max(max_calls, len(calls))

                def add(props, t, post, detail=None):
                    for prop in sorted(props):
                        role = f"{prop}:stdlib::{name}{'[' + variant + ']' if variant else ''}:{t}"
                        o = Obl(role, {prop}, f"{role}#n{n}#path{pi}", p, post, {"n": n, "calls": [c["method"] for c in calls], **(detail or {})})
                        o.ex = ex
                        obls.append(o)
                if p.outcome.kind != "ret":
                    add({"C04"}, f"{p.outcome.kind}", z3.BoolVal(False) if "compiler guarantees" not in (p.outcome.msg or "") and "expect" not in (p.outcome.msg or "") else z3.BoolVal(True),
                        {"msg": p.outcome.msg})
                    continue
                rv = p.outcome.value
                conj = []
                for i, c in enumerate(calls):
                    r = c["result"]
                    rty = r.ty
                    is_err = v.is_variant(r, "Err", "std::result::Result<T, compiler::expression_error::ExpressionError>")
                    last = z3.BoolVal(i == len(calls) - 1)
                    e_ = v.field(r, "Err", 0, EE)
                    same = z3.And(v.is_variant(rv, "Err", RES), v.same(v.field(rv, "Err", 0, EE), e_))
                    conj.append(z3.Implies(is_err, z3.And(last, same)))
                add({"C07", "C06"}, "first-runner-error-ends-the-call", z3.And(conj) if conj else z3.BoolVal(True))
                # D1: when every runner call answered Ok the driver visited every entry (filter: exactly n calls)
                if name == "filter":
                    all_ok = z3.And([v.is_variant(c["result"], "Ok", "std::result::Result<T, compiler::expression_error::ExpressionError>") for c in calls]) if calls else z3.BoolVal(True)
                    add({"C07", "C06"}, "runner-invoked-once-per-entry", z3.Implies(all_ok, z3.BoolVal(len(calls) == n)))
    return obls, sorted(set(fns))


def battery():
    """an abort in the first iteration: the program ends there, later entries are not visited"""
    out = []
    for call, params, marker, tail in (
            ('filter({"a": 1, "b": 2, "c": 3})', "|k, v|", "k", "true"),
            ("filter([1, 2, 3])", "|i, v|", "to_string(v)", "true"),
            ('for_each({"a": 1, "b": 2, "c": 3})', "|k, v|", "k", "null"),
            ("for_each([1, 2, 3])", "|i, v|", "to_string(v)", "null"),
            ('map_values({"a": 1, "b": 2, "c": 3})', "|v|", "to_string(v)", "v"),
            ('map_keys({"a": 1, "b": 2, "c": 3})', "|k|", "k", "k")):
        src = f'.seen = []\n.r = {call} -> {params} {{ .seen = push(.seen, {marker}); if length(.seen) == 1 {{ abort }}; {tail} }}\n.after = true\n'
        out.append(({"source": src, "event": {}}, {"outcome": "abort", "event_lacks": ["after"], "seen_len": 1}))
        src2 = f'.seen = []\n.r, .e = {call} -> {params} {{ .seen = push(.seen, {marker}); if length(.seen) == 1 {{ to_int(.bad) }} else {{ 1 }}; {tail} }}\n.after = true\n'
    return out
