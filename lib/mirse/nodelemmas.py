"""Per-node lemmas over the MIR of every `Expression::resolve` in src/compiler/expression (engine S).

For every node N the real `resolve` body is executed symbolically with each child expression replaced by
an oracle returning an arbitrary `Resolved` (and logging the call).  Obligations, each tagged with the
properties it serves and a stable *role* string:

  propagate-Abort  (C07)  child yields Err(Abort)  => N yields that very error, nothing is evaluated afterwards
  propagate-Return (C06)  child yields Err(Return) => same
  node-specific semantics (C08 `??` / `ok, err =`, C09 `||` `&&` `if`)

A structural induction over the expression tree (DESIGN.md §5 C06/C07) lifts the per-node lemmas to programs;
`audit()` re-derives the list of node types from the source and fails closed on an unmodelled one."""
import os, re, glob
from lemma import *

RES = "std::result::Result<value::value::Value, compiler::expression_error::ExpressionError>"
EE = "compiler::expression_error::ExpressionError"
VAL = "value::value::Value"

OPAQUE = [
    r"<impl value::value::Value>::kind$",
    r"VrlValueArithmetic>::try_(mul|div|add|sub|rem|gt|ge|lt|le|merge)$",
    r"VrlValueArithmetic>::eq_lossy$",
    r"^<ValueError as DiagnosticMessage>::message$",
    r"^Vec::<.*>::new$",
    r"builder::<impl value::kind::Kind>::\w+$",
    r"VrlValueConvert>::try_bytes_utf8_lossy$",
    r"^<.* as ToString>::to_string$",
    r"^<impl ToString as ToString>::to_string$",
    r"<impl value::value::Value>::(get|at_path|insert)::<",
    r"^value::value::Value::(get|at_path|insert|remove)::<",
    r"^<.* as (std::fmt::)?Display>::fmt$",
    r"^(alloc::|std::)?fmt::format$",
    r"^core::fmt::rt::<impl Arguments<'_>>::\w+",
    r"^<(str|String) as ToOwned>::to_owned$",
    r"^<str as ToOwned>::to_owned$",
    r"^Vec::<.*>::push$",
    r"label::<impl .*>::primary::<",
    r"^Label::primary::<",
    r"^<std::string::String as Clone>::clone$",
    r"^Span::(start|end)$",
    r"^std::fmt::Arguments::<'_>::new",
    r"^core::fmt::rt::Argument::<'_>::new_display::<",
    r"^std::fmt::format$",
    r"^format$",
    r"<impl std::fmt::Arguments<'_>>::",
    r"^<std::string::String as From<",
    r"^<OwnedValuePath as Clone>::clone$",
    r"^<value::value::Value as From<std::string::String>>::from$",
    r"^Arguments::<'_>::new",
    r"^Argument::<'_>::new_",
    r"^std::slice::<impl \[.*\]>::into_vec::<",
    r"^Box::<.*>::new(_uninit)?$",
    r"^alloc::alloc::exchange_malloc$",
    r"^std::boxed::box_new_uninit$|^std::boxed::box_assume_init_into_vec_unsafe",
    r"^<Ident as (std::fmt::)?Display>::fmt$",
    # a node that reads the variable store directly (instead of resolving a child) gets an arbitrary answer
    r"^(state::)?RuntimeState::variable(_mut)?$", r"^context::Context::<'_>::state(_mut)?$", r"^(variable::)?Variable::ident$",
]


def child_label(struct_fields):
    """'self*.1.0.0' -> field name of index 1, etc."""
    def f(label):
        m = re.match(r"^self\*?\.(\d+)((?:\.\w+)*)$", label)
        if m and struct_fields and int(m.group(1)) < len(struct_fields):
            rest = m.group(2)
            rest = re.sub(r"^(\.0\.0)$", "", rest)   # Box<T> internals
            rest = re.sub(r"^\.Some\.0$", "", rest)
            return struct_fields[int(m.group(1))] + rest
        return label
    return f


class TargetOracle:
    """`assignment::Target::insert(target, value, ctx)`: a store event"""

    def __call__(self, ex, st, callee, args, dest_ty, frame, depth):
        tgt = args[0]
        label = (tgt.cell.lstrip("*") + "".join(f".{p[1]}" for p in tgt.path)) if isinstance(tgt, Ref) else ex.val_name(st, tgt)
        st.trace.append({"kind": "store", "target": label, "value": args[1], "n": len(st.trace)})
        if dest_ty.strip() not in ("()", "", "?"):
            # a store that reports something (e.g. a Result): the answer is arbitrary -- the target may have rejected the write
            return [(st, Outcome("ret", ex.fresh(dest_ty, f"store_result#{len(st.trace)}[{label}]")))]
        return [(st, Outcome("ret", UNIT))]


def path_desc(ex, p, self_ty_fields=None):
    """positive discriminant facts about `self` on this path, e.g. 'opcode=Err'"""
    out = []
    for c in p.st.pc:
        s = str(c).replace("\n", " ")
        m = re.match(r"^(\d+) == discr\((self\*?[^)]*)\)$", s)
        if m:
            out.append((m.group(2), int(m.group(1))))
    return out


class NodeRun:
    def __init__(self, name, ex, paths, label_fn, desc_fn=None):
        self.name, self.ex, self.paths, self.label_fn, self.desc_fn = name, ex, paths, label_fn, desc_fn


def err_is(v, r, X):
    """z3: Resolved value r is Err(X{..})"""
    e = v.field(r, "Err", 0, EE)
    return z3.And(v.is_variant(r, "Err", RES), v.is_variant(e, X, EE))


def is_ok(v, r):
    return v.is_variant(r, "Ok", RES)


# ----------------------------------------------------------------------------- running the nodes

def make_executor(S, extra_oracles=None):
    orc = [(re.compile(r"^<.* as Expression>::resolve$"), ChildOracle()),
           (re.compile(r"^assignment::Target::insert$"), TargetOracle())]
    if extra_oracles:
        orc = list(extra_oracles) + orc
    return S.executor(oracles=orc, opaque=OPAQUE)


def run_simple(S, ty_name, self_ty, struct=None, seq=None, extra_oracles=None):
    """symbolically execute <ty_name as Expression>::resolve"""
    f = S.method("Expression", ty_name, "resolve")
    ex = make_executor(S, extra_oracles)
    st = State()
    ctx = ex.fresh("&mut context::Context<'_>", "ctx")
    if seq is None:
        selfv = ex.fresh(self_ty, "self")
    else:
        field_idx, n, kind = seq
        items = []
        for i in range(n):
            if kind == "map":
                kc, vc = f"self.inner[{i}].key", f"self.inner[{i}]"
                st.heap[kc] = ex.fresh("KeyString", f"key{i}")
                st.heap[vc] = ex.fresh("compiler::expression::Expr", f"elem{i}")
                items.append((kc, vc))
            else:
                c = f"self.inner[{i}]"
                st.heap[c] = ex.fresh("compiler::expression::Expr", f"elem{i}")
                items.append(c)
        st.heap["*self"] = Agg(self_ty.lstrip("&"), {field_idx: Seq("Vec<Expr>", items, kind)}, origin="self*")
        selfv = Ref(self_ty, "*self", ())
    paths = ex.run(f, [selfv, ctx], st)
    fields = S.types.struct_fields(struct or ty_name, ex.hint_mod)
    return NodeRun(ty_name, ex, paths, child_label(fields)), f


# ----------------------------------------------------------------------------- obligations

class Obl:
    def __init__(self, role, props, name, path, post, detail=None):
        self.role, self.props, self.name, self.path, self.post, self.detail = role, props, name, path, post, detail


def propagate_obligations(run, node_tag, desc_of_path, variants=("Abort", "Return"), expect_passthrough=True):
    """for each path, each child-resolve event and each X: Err(X) from that child => propagated, nothing later"""
    obls = []
    ex = run.ex
    for pi, p in enumerate(run.paths):
        v = V(ex, p.st)
        evs = p.st.trace
        desc = desc_of_path(p)
        for i, e in enumerate(evs):
            if e["kind"] != "resolve":
                continue
            child = run.label_fn(e["child"])
            for X in variants:
                prop = "C07" if X == "Abort" else "C06"
                cond = err_is(v, e["result"], X)
                later = [x for x in evs[i + 1:]]
                nothing_later = z3.BoolVal(len(later) == 0)
                if p.outcome.kind == "ret":
                    same = v.same(p.outcome.value, e["result"])
                else:
                    same = z3.BoolVal(False)
                post = z3.Implies(cond, z3.And(nothing_later, same))
                role = f"{prop}:{node_tag}{desc}:{child}:{X}"
                obls.append(Obl(role, {prop}, f"{role}#path{pi}", p, post,
                                {"trace": [run.label_fn(x.get('child', x.get('target', '?'))) for x in evs], "outcome": p.outcome.kind}))
    return obls


def no_bad_outcomes(run, node_tag, desc_of_path, props=("C04",)):
    """no path ends in a panic / unreachable / loop bound"""
    obls = []
    for pi, p in enumerate(run.paths):
        if p.outcome.kind in ("panic", "unreachable", "loopbound"):
            role = f"C04:{node_tag}{desc_of_path(p)}:{p.outcome.kind}:{(p.outcome.msg or '')[:60]}"
            obls.append(Obl(role, set(props), f"{role}#path{pi}", p, z3.BoolVal(False), {"msg": p.outcome.msg}))
        else:
            role = f"C04:{node_tag}{desc_of_path(p)}:path-ends-in-return"
            obls.append(Obl(role, set(props), f"{role}#path{pi}", p, z3.BoolVal(True)))
    return obls


# ----------------------------------------------------------------------------- node catalogue

def opcode_desc(S, ex):
    vs = S.types.enum_variants("parser::ast::Opcode")
    names = {k: n for n, k in vs}

    def d(p):
        for where, k in path_desc(ex, p):
            if where.endswith(".2"):
                return f"[{names.get(k, k)}]"
        # 'otherwise' branch: opcode not in the short-circuit set
        return "[arith/cmp]"
    return d


def variant_desc(S, ex, ty, hint):
    vs = S.types.enum_variants(ty, hint)
    names = {k: n for n, k in (vs or [])}

    def d(p):
        for where, k in path_desc(ex, p):
            if where in ("self*", "self*.0"):
                return f"[{names.get(k, k)}]"
        return ""
    return d


def all_node_runs(S, bounds):
    """returns list of (node_tag, NodeRun, desc_fn, fn)"""
    out = []
    # Op
    run, f = run_simple(S, "Op", "&op::Op")
    fields = S.types.struct_fields("Op", "compiler::expression::op")
    if fields != ["lhs", "rhs", "opcode"]:
        raise Unencodable(f"Op fields changed: {fields}")
    out.append(("Op", run, opcode_desc(S, run.ex), f))
    # simple wrappers
    for ty, selfty in (("Not", "&not::Not"), ("Return", "&return::Return"), ("Group", "&group::Group"),
                       ("Predicate", "&predicate::Predicate"), ("Abort", "&abort::Abort"), ("IfStatement", "&if_statement::IfStatement"),
                       ("Assignment", "&assignment::Assignment"), ("FunctionArgument", "&function_argument::FunctionArgument")):
        try:
            run, f = run_simple(S, ty, selfty)
        except Unencodable as e:
            if ty == "FunctionArgument" and "found 0" in str(e):
                continue
            raise
        out.append((ty, run, lambda p: "", f))
    for ty, selfty, enum_ty in (("Unary", "&unary::Unary", "unary::Variant"), ("Container", "&container::Container", "container::Variant"),
                                ("Expr", "&compiler::expression::Expr", "compiler::expression::Expr")):
        run, f = run_simple(S, ty, selfty)
        out.append((ty, run, variant_desc(S, run.ex, enum_ty, "compiler::expression::" + ty.lower()), f))
    # assignment variants
    run, f = run_simple(S, "Variant", "&assignment::Variant<assignment::Target, U>")
    out.append(("AssignVariant", run, variant_desc(S, run.ex, "assignment::Variant", "compiler::expression::assignment"), f))
    # lists
    for n in range(1, bounds.get("block", 3) + 1):
        run, f = run_simple(S, "Block", "&block::Block", seq=(0, n, "slice"))
        out.append((f"Block(n={n})", run, lambda p: "", f))
    for n in range(0, bounds.get("array", 3) + 1):
        run, f = run_simple(S, "Array", "&array::Array", seq=(0, n, "slice"))
        out.append((f"Array(n={n})", run, lambda p: "", f))
        run, f = run_simple(S, "Object", "&object::Object", seq=(0, n, "map"))
        out.append((f"Object(n={n})", run, lambda p: "", f))
    return out


EXPRESSION_IMPLS_HANDLED = {"Op", "Not", "Return", "Group", "Predicate", "Abort", "IfStatement", "Assignment", "Unary", "Container",
                            "Expr", "Variant", "Block", "Array", "Object", "FunctionArgument",
                            # leaves: evaluate no child expression
                            "Literal", "Noop", "Variable",
                            # handled by dedicated lemmas
                            "Query", "FunctionCall", "Program", "FunctionExpressionAdapter"}


def audit(S):
    """fail-closed completeness of the induction: every `impl Expression for X` under src/compiler must be known"""
    found = {}
    for (file, line), (tr, ty) in S.types.impls.items():
        if tr == "Expression" and file.startswith("src/compiler/"):
            found[ty] = f"{file}:{line}"
    unknown = {t: w for t, w in found.items() if t not in EXPRESSION_IMPLS_HANDLED and t not in ("T", "Box", "Fn", "ExpressionFn")}
    return found, unknown


# ----------------------------------------------------------------------------- node-specific semantics (C08, C09)

def _labels(run, p):
    return [run.label_fn(e.get("child", e.get("target", "?"))) if e["kind"] == "resolve" else "store:" + run.label_fn(e["target"]) for e in p.st.trace]


def _okval(v, r):
    return v.field(r, "Ok", 0, VAL)


def _falsy(v, val):
    b = v.field(val, "Boolean", 0, "bool")
    return z3.Or(v.is_variant(val, "Null", VAL), z3.And(v.is_variant(val, "Boolean", VAL), z3.Not(b.e)))


def _ret_is_ok_bool(v, p, e):
    """z3: outcome is Ok(Boolean(e))"""
    if p.outcome.kind != "ret":
        return z3.BoolVal(False)
    r = p.outcome.value
    val = _okval(v, r)
    b = v.field(val, "Boolean", 0, "bool")
    return z3.And(v.is_variant(r, "Ok", RES), v.is_variant(val, "Boolean", VAL), b.e == e)


def _ret_same(v, p, x):
    return v.same(p.outcome.value, x) if p.outcome.kind == "ret" else z3.BoolVal(False)


def _ret_is_err(v, p):
    return v.is_variant(p.outcome.value, "Err", RES) if p.outcome.kind == "ret" else z3.BoolVal(False)


def op_semantics(run, desc):
    obls = []
    ex = run.ex
    for pi, p in enumerate(run.paths):
        v = V(ex, p.st)
        d = desc(p)
        labs = _labels(run, p)
        evs = p.st.trace
        first_is_lhs = bool(labs) and labs[0] == "lhs"
        r0 = evs[0]["result"] if evs else None
        r1 = evs[1]["result"] if len(evs) > 1 else None

        def add(prop, tag, post):
            role = f"{prop}:Op{d}:{tag}"
            obls.append(Obl(role, {prop}, f"{role}#path{pi}", p, post, {"trace": labs}))
        if not first_is_lhs:
            add("C09", "lhs-evaluated-first", z3.BoolVal(False))
            continue
        only_lhs = z3.BoolVal(labs == ["lhs"])
        both = z3.BoolVal(labs == ["lhs", "rhs"])
        ok0 = is_ok(v, r0)
        if d == "[Err]":
            add("C08", "coalesce-lhs-ok", z3.Implies(ok0, z3.And(only_lhs, _ret_same(v, p, r0))))
            if r1 is not None:
                add("C08", "coalesce-lhs-error", z3.Implies(err_is(v, r0, "Error"), z3.And(both, _ret_same(v, p, r1))))
            else:
                add("C08", "coalesce-lhs-error", z3.Implies(err_is(v, r0, "Error"), z3.BoolVal(False)))
        elif d == "[Or]":
            v0 = _okval(v, r0)
            fz = _falsy(v, v0)
            add("C09", "or-lhs-truthy", z3.Implies(z3.And(ok0, z3.Not(fz)), z3.And(only_lhs, _ret_same(v, p, r0))))
            add("C09", "or-lhs-err", z3.Implies(z3.Not(ok0), z3.And(only_lhs, _ret_same(v, p, r0))))
            if r1 is not None:
                add("C09", "or-lhs-falsy", z3.Implies(z3.And(ok0, fz), z3.And(both, z3.Implies(is_ok(v, r1), _ret_same(v, p, r1)),
                                                                           z3.Implies(z3.Not(is_ok(v, r1)), _ret_is_err(v, p)))))
            else:
                add("C09", "or-lhs-falsy", z3.Implies(z3.And(ok0, fz), z3.BoolVal(False)))
        elif d == "[And]":
            v0 = _okval(v, r0)
            fz = _falsy(v, v0)
            add("C09", "and-lhs-falsy", z3.Implies(z3.And(ok0, fz), z3.And(only_lhs, _ret_is_ok_bool(v, p, z3.BoolVal(False)))))
            add("C09", "and-lhs-err", z3.Implies(z3.Not(ok0), z3.And(only_lhs, _ret_same(v, p, r0))))
            if r1 is not None:
                v1 = _okval(v, r1)
                b1 = v.field(v1, "Boolean", 0, "bool")
                lhs_true = z3.And(v.is_variant(v0, "Boolean", VAL), v.field(v0, "Boolean", 0, "bool").e)
                add("C09", "and-lhs-truthy", z3.Implies(z3.And(ok0, z3.Not(fz)), z3.And(
                    both,
                    z3.Implies(z3.And(lhs_true, is_ok(v, r1), v.is_variant(v1, "Boolean", VAL)), _ret_is_ok_bool(v, p, b1.e)),
                    z3.Implies(z3.And(lhs_true, is_ok(v, r1), v.is_variant(v1, "Null", VAL)), _ret_is_ok_bool(v, p, z3.BoolVal(False))),
                    z3.Implies(z3.Not(is_ok(v, r1)), _ret_same(v, p, r1)))))
            else:
                add("C09", "and-lhs-truthy", z3.Implies(z3.And(ok0, z3.Not(fz)), z3.BoolVal(False)))
        else:
            add("C09", "eager-lhs-err", z3.Implies(z3.Not(ok0), z3.And(only_lhs, _ret_same(v, p, r0))))
            if r1 is not None:
                add("C09", "eager-rhs-err", z3.Implies(z3.And(ok0, z3.Not(is_ok(v, r1))), z3.And(both, _ret_same(v, p, r1))))
            else:
                add("C09", "eager-rhs-evaluated", z3.Implies(ok0, z3.BoolVal(False)))
    return obls


def if_semantics(run):
    obls = []
    ex = run.ex
    for pi, p in enumerate(run.paths):
        v = V(ex, p.st)
        labs = _labels(run, p)
        evs = p.st.trace

        def add(tag, post):
            role = f"C09:IfStatement:{tag}"
            obls.append(Obl(role, {"C09"}, f"{role}#path{pi}", p, post, {"trace": labs}))
        if not labs or labs[0] != "predicate":
            add("predicate-first", z3.BoolVal(False))
            continue
        r0 = evs[0]["result"]
        ok0 = is_ok(v, r0)
        v0 = _okval(v, r0)
        isb = v.is_variant(v0, "Boolean", VAL)
        b = v.field(v0, "Boolean", 0, "bool").e
        else_opt = ex.child_of("self*", "IfStatement", None, 2, "std::option::Option<compiler::expression::block::Block>")
        has_else = v.is_variant(else_opt, "Some", "std::option::Option<T>")
        r1 = evs[1]["result"] if len(evs) > 1 else None
        add("pred-err", z3.Implies(z3.Not(ok0), z3.And(z3.BoolVal(labs == ["predicate"]), _ret_same(v, p, r0))))
        add("pred-not-boolean", z3.Implies(z3.And(ok0, z3.Not(isb)), z3.And(z3.BoolVal(labs == ["predicate"]), _ret_is_err(v, p))))
        add("pred-true", z3.Implies(z3.And(ok0, isb, b), z3.And(z3.BoolVal(labs == ["predicate", "if_block"]),
                                                               _ret_same(v, p, r1) if r1 is not None else z3.BoolVal(False))))
        add("pred-false-else", z3.Implies(z3.And(ok0, isb, z3.Not(b), has_else),
                                          z3.And(z3.BoolVal(labs == ["predicate", "else_block"]), _ret_same(v, p, r1) if r1 is not None else z3.BoolVal(False))))
        null_ok = z3.BoolVal(False)
        if p.outcome.kind == "ret":
            rv = p.outcome.value
            null_ok = z3.And(v.is_variant(rv, "Ok", RES), v.is_variant(_okval(v, rv), "Null", VAL))
        add("pred-false-no-else", z3.Implies(z3.And(ok0, isb, z3.Not(b), z3.Not(has_else)), z3.And(z3.BoolVal(labs == ["predicate"]), null_ok)))
    return obls


def assign_semantics(run, desc, S):
    obls = []
    ex = run.ex
    vf = S.types.variant_fields("assignment::Variant", "Infallible", "compiler::expression::assignment")
    if vf != ["ok", "err", "expr", "default"]:
        raise Unencodable(f"Variant::Infallible fields changed: {vf}")
    vf2 = S.types.variant_fields("assignment::Variant", "Single", "compiler::expression::assignment")
    if vf2 != ["target", "expr"]:
        raise Unencodable(f"Variant::Single fields changed: {vf2}")
    for pi, p in enumerate(run.paths):
        v = V(ex, p.st)
        d = desc(p)
        evs = p.st.trace
        raw = [(e["kind"], e.get("child", e.get("target"))) for e in evs]

        def add(tag, post):
            role = f"C08:AssignVariant{d}:{tag}"
            obls.append(Obl(role, {"C08"}, f"{role}#path{pi}", p, post, {"trace": raw}))
        if not evs or evs[0]["kind"] != "resolve":
            add("expr-first", z3.BoolVal(False))
            continue
        r0 = evs[0]["result"]
        ok0 = is_ok(v, r0)
        v0 = _okval(v, r0)
        stores = [e for e in evs[1:] if e["kind"] == "store"]
        extra = [e for e in evs[1:] if e["kind"] != "store"]
        ret_ok_val = None
        if p.outcome.kind == "ret":
            ret_ok_val = _okval(v, p.outcome.value)
        ret_ok = v.is_variant(p.outcome.value, "Ok", RES) if p.outcome.kind == "ret" else z3.BoolVal(False)
        # C17: whatever the stores answer (a rejected write is dropped), the assignment itself succeeds whenever its
        # expression produced a value (Infallible: also when it failed with an ordinary error)
        handled = z3.Or(ok0, err_is(v, r0, "Error")) if d == "[Infallible]" else ok0
        obls.append(Obl(f"C17:AssignVariant{d}:rejected-write-does-not-end-the-assignment", {"C17"},
                        f"C17:AssignVariant{d}:rejected-write-does-not-end-the-assignment#path{pi}", p, z3.Implies(handled, ret_ok), {"trace": raw}))
        if d == "[Infallible]":
            okT, errT = "self.Infallible.0", "self.Infallible.1"
            default = ex.child_of("self*", "Variant", "Infallible", 3, VAL)
            shape_ok = len(stores) == 2 and not extra and stores[0]["target"] == okT and stores[1]["target"] == errT
            if shape_ok:
                s0, s1 = stores[0]["value"], stores[1]["value"]
                add("infallible-ok", z3.Implies(ok0, z3.And(v.same(s0, v0), v.is_variant(s1, "Null", VAL), ret_ok, v.same(ret_ok_val, v0))))
                msg_ok = z3.BoolVal(ex.val_name(p.st, s1) == f"from(to_string(&{ex.val_name(p.st, v.field(r0, 'Err', 0, EE))}))")
                add("infallible-error", z3.Implies(err_is(v, r0, "Error"), z3.And(v.same(s0, default), msg_ok, ret_ok, v.same(ret_ok_val, s1))))
            else:
                add("infallible-ok", z3.Implies(ok0, z3.BoolVal(False)))
                add("infallible-error", z3.Implies(err_is(v, r0, "Error"), z3.BoolVal(False)))
        elif d == "[Single]":
            tT = "self.Single.0"
            if len(stores) == 1 and not extra and stores[0]["target"] == tT:
                add("single-ok", z3.Implies(ok0, z3.And(v.same(stores[0]["value"], v0), ret_ok, v.same(ret_ok_val, v0))))
                add("single-err", z3.Implies(z3.Not(ok0), z3.BoolVal(False)))
            elif not stores and not extra:
                add("single-ok", z3.Implies(ok0, z3.BoolVal(False)))
                add("single-err", z3.Implies(z3.Not(ok0), _ret_same(v, p, r0)))
            else:
                add("single-shape", z3.BoolVal(False))
        else:
            add("unknown-variant", z3.BoolVal(False))
    return obls


# ----------------------------------------------------------------------------- FunctionCall / Query / Program / Runtime

class TargetOpOracle:
    """`<dyn Target as Target>::target_get|target_insert|target_remove`: arbitrary Result (= arbitrary fault)"""

    def __call__(self, ex, st, callee, args, dest_ty, frame, depth):
        op = callee.split("::")[-1]
        n = len(st.trace)
        res = ex.fresh(dest_ty, f"tgt{n}[{op}]")
        st.trace.append({"kind": "target", "op": op, "result": res, "args": args[1:], "n": n})
        return [(st, Outcome("ret", res))]


def run_fn(S, fn, args_spec, extra_oracles=None, opaque_extra=None):
    orc = [(re.compile(r"^<.* as (\w+::)*(Function)?Expression>::resolve$"), ChildOracle()),
           (re.compile(r"^assignment::Target::insert$"), TargetOracle()),
           (re.compile(r"^<dyn (\w+::)*Target as (\w+::)*Target>::target_(get|insert|remove|get_mut)$"), TargetOpOracle())]
    if extra_oracles:
        orc = list(extra_oracles) + orc
    ex = S.executor(oracles=orc, opaque=OPAQUE + (opaque_extra or []))
    args = [ex.fresh(t, n) for n, t in args_spec]
    paths = ex.run(fn, args)
    return ex, paths


def function_call_run(S):
    f = S.method("Expression", "FunctionCall", "resolve")
    ex, paths = run_fn(S, f, [("self", "&function_call::FunctionCall"), ("ctx", "&mut context::Context<'_>")])
    fields = S.types.struct_fields("FunctionCall", "compiler::expression::function_call")
    return NodeRun("FunctionCall", ex, paths, child_label(fields)), f


def adapter_run(S):
    f = S.method("Expression", "FunctionExpressionAdapter", "resolve")
    ex, paths = run_fn(S, f, [("self", "&FunctionExpressionAdapter<T>"), ("ctx", "&mut context::Context<'_>")])
    fields = S.types.struct_fields("FunctionExpressionAdapter", "compiler::expression::function")
    return NodeRun("FunctionExpressionAdapter", ex, paths, child_label(fields)), f


def query_run(S):
    f = S.method("Expression", "Query", "resolve")
    ex, paths = run_fn(S, f, [("self", "&query::Query"), ("ctx", "&mut context::Context<'_>")],
                       opaque_extra=[r"^context::Context::<'_>::target$", r"^<OwnedValuePath as Clone>::clone$"])
    return NodeRun("Query", ex, paths, lambda l: l), f


def program_run(S):
    cands = S.prog.find(None, "Program", "resolve")
    if len(cands) != 1:
        raise Unencodable(f"Program::resolve: {len(cands)} bodies")
    ex, paths = run_fn(S, cands[0], [("self", "&program::Program"), ("ctx", "&mut context::Context<'_>")])
    fields = S.types.struct_fields("Program", "compiler::program")
    return NodeRun("Program", ex, paths, child_label(fields)), cands[0]


def query_semantics(run, S):
    """C17: a rejected or empty external read behaves as a missing field (null), no panic"""
    obls = []
    ex = run.ex
    for pi, p in enumerate(run.paths):
        v = V(ex, p.st)
        tg = [e for e in p.st.trace if e["kind"] == "target"]
        if not tg:
            continue
        e = tg[0]
        r = e["result"]
        rty = "std::result::Result<std::option::Option<&value::value::Value>, std::string::String>"
        is_err = v.is_variant(r, "Err", rty)
        opt = v.field(r, "Ok", 0, "std::option::Option<&value::value::Value>")
        is_none = z3.And(v.is_variant(r, "Ok", rty), v.is_variant(opt, "None", "std::option::Option<T>"))
        null_ok = z3.BoolVal(False)
        if p.outcome.kind == "ret":
            rv = p.outcome.value
            null_ok = z3.And(v.is_variant(rv, "Ok", RES), v.is_variant(_okval(v, rv), "Null", VAL))
        only = z3.BoolVal(len(p.st.trace) == 1 and e["op"] == "target_get")
        role = "C17:Query[External]:rejected-read-is-null"
        obls.append(Obl(role, {"C17"}, f"{role}#path{pi}", p, z3.Implies(z3.Or(is_err, is_none), z3.And(only, null_ok))))
        # a successful read returns the stored value (clone of the reference target)
        some_val = v.field(opt, "Some", 0, "&value::value::Value")
        role2 = "C17:Query[External]:successful-read-returns-value"
        if p.outcome.kind == "ret":
            got = _okval(v, p.outcome.value)
            tgtv = None
            try:
                c, pa = ex.deref_target(p.st, some_val)
                tgtv = ex.read(p.st, c, pa)
            except Unencodable:
                pass
            post = z3.Implies(z3.And(v.is_variant(r, "Ok", rty), v.is_variant(opt, "Some", "std::option::Option<T>")),
                              z3.And(v.is_variant(p.outcome.value, "Ok", RES), v.same(got, tgtv) if tgtv is not None else z3.BoolVal(False)))
            obls.append(Obl(role2, {"C17"}, f"{role2}#path{pi}", p, post))
    return obls


def runtime_run(S):
    cands = S.prog.find(None, "Runtime", "resolve")
    if len(cands) != 1:
        raise Unencodable(f"Runtime::resolve: {len(cands)} bodies")
    orc = [(re.compile(r"^(program::)?Program::resolve$"), ChildOracle(label_of=lambda l: "program"))]
    ex, paths = run_fn(S, cands[0], [("self", "&mut runtime::Runtime"), ("target", "&mut dyn target::Target"),
                                     ("program", "&program::Program"), ("timezone", "&datetime::TimeZone")],
                       extra_oracles=orc,
                       opaque_extra=[r"^OwnedTargetPath::event_root$", r"^context::Context::<'_>::new$", r"^<ExpressionError as From<std::string::String>>::from$",
                                     r"^<std::string::String as Into<ExpressionError>>::into$"])
    return NodeRun("Runtime", ex, paths, lambda l: l), cands[0]


TERM = "std::result::Result<value::value::Value, compiler::runtime::Terminate>"


def runtime_semantics(run, S):
    obls = []
    ex = run.ex
    tv = S.types.enum_variants("runtime::Terminate", "compiler::runtime")
    if [n for n, _ in tv] != ["Abort", "Error"]:
        raise Unencodable(f"Terminate variants changed: {tv}")
    for pi, p in enumerate(run.paths):
        v = V(ex, p.st)
        evs = p.st.trace
        kinds = [(e["kind"], e.get("op", e.get("child"))) for e in evs]

        def add(prop, tag, post):
            role = f"{prop}:Runtime:{tag}"
            obls.append(Obl(role, {prop}, f"{role}#path{pi}", p, post, {"trace": kinds}))
        if not evs or evs[0]["kind"] != "target" or evs[0]["op"] != "target_get":
            add("C17", "root-read-first", z3.BoolVal(False))
            continue
        r = evs[0]["result"]
        rty = "std::result::Result<std::option::Option<&value::value::Value>, std::string::String>"
        opt = v.field(r, "Ok", 0, "std::option::Option<&value::value::Value>")
        bad_root = z3.Or(v.is_variant(r, "Err", rty), z3.And(v.is_variant(r, "Ok", rty), v.is_variant(opt, "None", "std::option::Option<T>")))
        if p.outcome.kind != "ret":
            add("C04", "no-panic", z3.BoolVal(False))
            continue
        rv = p.outcome.value
        term = v.field(rv, "Err", 0, "compiler::runtime::Terminate")
        is_term_err = z3.And(v.is_variant(rv, "Err", TERM), v.is_variant(term, "Error", "compiler::runtime::Terminate"))
        add("C17", "unreadable-root-is-error", z3.Implies(bad_root, z3.And(z3.BoolVal(len(evs) == 1), is_term_err)))
        progs = [e for e in evs if e["kind"] == "resolve"]
        if progs:
            pr = progs[0]["result"]
            last = z3.BoolVal(evs[-1] is progs[0] and len(progs) == 1)
            okv = _okval(v, pr)
            e_ = v.field(pr, "Err", 0, EE)
            ret_ok = v.is_variant(rv, "Ok", TERM)
            ret_val = v.field(rv, "Ok", 0, VAL)
            add("C06", "program-ok", z3.Implies(is_ok(v, pr), z3.And(last, ret_ok, v.same(ret_val, okv))))
            rval = v.field(e_, "Return", 1, VAL)
            add("C06", "program-return-is-success", z3.Implies(err_is(v, pr, "Return"), z3.And(last, ret_ok, v.same(ret_val, rval))))
            t_abort = z3.And(v.is_variant(rv, "Err", TERM), v.is_variant(term, "Abort", "compiler::runtime::Terminate"),
                             v.same(v.field(term, "Abort", 0, EE), e_))
            add("C07", "program-abort-is-abort", z3.Implies(err_is(v, pr, "Abort"), z3.And(last, t_abort)))
            t_error = z3.And(v.is_variant(rv, "Err", TERM), v.is_variant(term, "Error", "compiler::runtime::Terminate"),
                             v.same(v.field(term, "Error", 0, EE), e_))
            add("C02", "program-error-is-error", z3.Implies(err_is(v, pr, "Error"), z3.And(last, t_error)))
        else:
            add("C17", "program-runs-when-root-readable", z3.Implies(z3.Not(bad_root), z3.BoolVal(False)))
    return obls


def target_insert_run(S):
    c = [x for x in S.prog.find(None, "Target", "insert") if "assignment.rs" in x.name]
    if len(c) != 1:
        raise Unencodable(f"assignment::Target::insert: {len(c)} bodies")
    ex, paths = run_fn(S, c[0], [("self", "&assignment::Target"), ("value", "value::value::Value"), ("ctx", "&mut context::Context<'_>")],
                       opaque_extra=[r"^context::Context::<'_>::(state_mut|target_mut)$", r"^(state::)?RuntimeState::(insert_variable|variable_mut)$",
                                     r"^<(ast::)?Ident as Clone>::clone$", r"^OwnedValuePath::is_root$"])
    return NodeRun("AssignTarget", ex, paths, lambda l: l), c[0]


def target_insert_semantics(run, S):
    """C17: a rejected write makes `insert` return normally, after exactly one target operation (nothing else is touched)"""
    obls = []
    ex = run.ex
    tv = S.types.enum_variants("assignment::Target", "compiler::expression::assignment")
    if [n for n, _ in tv] != ["Noop", "Internal", "External"]:
        raise Unencodable(f"assignment::Target variants changed: {tv}")
    for pi, p in enumerate(run.paths):
        v = V(ex, p.st)
        tg = [e for e in p.st.trace if e["kind"] == "target"]
        is_ext = v.is_variant(Lazy("assignment::Target", "self*"), "External", "assignment::Target")
        role = "C17:AssignTarget[External]:rejected-write-is-contained"
        ok = p.outcome.kind == "ret" and len(tg) == 1 and tg[0]["op"] == "target_insert" and len(p.st.trace) == 1
        obls.append(Obl(role, {"C17"}, f"{role}#path{pi}", p, z3.Implies(is_ext, z3.BoolVal(ok))))
        if tg:
            # the value handed to the target is the assigned value, the path is the target's path
            same_val = v.same(tg[0]["args"][1], Lazy(VAL, "value")) if len(tg[0]["args"]) > 1 else z3.BoolVal(False)
            role2 = "C17:AssignTarget[External]:writes-the-assigned-value"
            obls.append(Obl(role2, {"C17", "C08"}, f"{role2}#path{pi}", p, z3.Implies(is_ext, same_val)))
        else:
            role3 = "C17:AssignTarget[non-External]:no-target-operation"
            obls.append(Obl(role3, {"C17", "C15"}, f"{role3}#path{pi}", p, z3.BoolVal(len(p.st.trace) == 0)))
    return obls


# ----------------------------------------------------------------------------- everything together

def return_semantics(run):
    """`return e`: e is evaluated exactly once through its own `resolve`, and its value -- nothing else -- is what
    the Return outcome carries (in a closure the statement runs once per iteration: it must not consume anything)"""
    obls = []
    ex = run.ex
    for pi, p in enumerate(run.paths):
        if p.outcome.kind != "ret":
            continue
        v = V(ex, p.st)
        evs = [e for e in p.st.trace if e["kind"] == "resolve"]
        r = p.outcome.value
        if len(evs) != 1:
            post = z3.BoolVal(False)
            detail = {"problem": f"the returned expression was resolved {len(evs)} time(s)"}
        else:
            cr = evs[0]["result"]
            e_ = v.field(r, "Err", 0, EE)
            post = z3.Implies(is_ok(v, cr), z3.And(v.is_variant(r, "Err", RES), v.is_variant(e_, "Return", EE),
                                                   v.same(v.field(e_, "Return", 1, VAL), v.field(cr, "Ok", 0, VAL))))
            detail = {"result": ex.val_name(p.st, r)[:160]}
        obls.append(Obl("C06:Return:carries-the-value-of-its-expression", {"C06"}, f"C06:Return:carries-the-value-of-its-expression#path{pi}", p, post, detail))
    return obls


def all_obligations(S, bounds):
    """returns (obligations, fn_records, stats); every obligation carries its executor in .ex"""
    obls, fns, stats = [], [], {}

    def take(run, new):
        for o in new:
            o.ex = run.ex
        obls.extend(new)
    for tag, run, desc, f in all_node_runs(S, bounds):
        fns.append((f.name, f.text_hash))
        take(run, propagate_obligations(run, tag, desc))
        take(run, no_bad_outcomes(run, tag, desc))
        if tag == "Op":
            take(run, op_semantics(run, desc))
        if tag == "IfStatement":
            take(run, if_semantics(run))
        if tag == "Return":
            take(run, return_semantics(run))
        if tag == "AssignVariant":
            take(run, assign_semantics(run, desc, S))
        stats[tag] = {"paths": len(run.paths), **{k: v for k, v in run.ex.stats.items() if k in ("solver_calls", "forks", "oracle_calls")}}
        for n, h in run.ex.stats["fns_entered"].items():
            fns.append((n, h))
    for maker, sem in ((function_call_run, None), (adapter_run, None), (program_run, None), (query_run, query_semantics), (runtime_run, runtime_semantics), (target_insert_run, target_insert_semantics)):
        run, f = maker(S)
        fns.append((f.name, f.text_hash))
        if run.name not in ("Runtime", "AssignTarget"):
            take(run, propagate_obligations(run, run.name, lambda p: ""))
        take(run, no_bad_outcomes(run, run.name, lambda p: ""))
        if sem:
            take(run, sem(run, S))
        stats[run.name] = {"paths": len(run.paths)}
        for n, h in run.ex.stats["fns_entered"].items():
            fns.append((n, h))
    return obls, sorted(set(fns)), stats


# ----------------------------------------------------------------------------- C17: stdlib call sites of the target (del, exists, unnest)

TARGET_CALL_SITES = {"src/compiler/runtime.rs", "src/compiler/expression/assignment.rs", "src/compiler/expression/query.rs",
                     "src/stdlib/del.rs", "src/stdlib/exists.rs", "src/stdlib/unnest.rs"}


def audit_target_call_sites():
    """fail-closed: every file that performs a target operation must be covered by a C17 lemma"""
    import glob, common
    found = set()
    for p in glob.glob(os.path.join(common.REPO, "src/**/*.rs"), recursive=True):
        rel = os.path.relpath(p, common.REPO)
        if rel == "src/compiler/target.rs" or "/test" in rel:
            continue
        src = open(p, errors="replace").read()
        src = re.sub(r"#\[cfg\(test\)\].*", "", src, flags=re.S)
        if re.search(r"\.\s*target_(get|insert|remove|get_mut)\s*\(", src):
            found.add(rel)
    return found, found - TARGET_CALL_SITES


STD_OPAQUE = [r"Query::(path|external_path|variable_ident|expression_target|target)$", r"Context::<'_>::(target_mut|target|state|state_mut)$",
              r"RuntimeState::(variable|variable_mut)$", r"Value::(get|remove|insert)::<", r"<bool as Into<.*Value>>::into$", r"OwnedTargetPath::root$",
              r"^unnest_root$|unnest::unnest_root$", r"<impl .*Value>::(get|remove)::<", r"OwnedValuePath::root$", r"Variable::ident$"]


def stdlib_target_obligations(S_std):
    import stdlemmas
    obls, fns = [], []
    specs = (("del", [("query", "&compiler::expression::Query"), ("compact", "bool"), ("ctx", "&mut compiler::context::Context<'_>")]),
             ("exists", [("query", "&compiler::expression::Query"), ("ctx", "&mut compiler::context::Context<'_>")]),
             ("unnest", [("path", "&compiler::expression::Query"), ("ctx", "&mut compiler::context::Context<'_>")]))
    VALQ = "value::value::Value"
    for nm, args in specs:
        f = stdlemmas.free_fn(S_std, nm, nm)
        ex, paths = run_fn(S_std, f, args, opaque_extra=STD_OPAQUE)
        fns.append((f.name, f.text_hash))
        n_t = 0
        for pi, p in enumerate(paths):
            tg = [e for e in p.st.trace if e["kind"] == "target"]
            if not tg:
                continue
            n_t += 1
            v = V(ex, p.st)
            r = tg[0]["result"]

            def add(tag, post):
                role = f"C17:stdlib::{nm}:{tag}"
                o = Obl(role, {"C17"}, f"{role}#path{pi}", p, post, {"ops": [e["op"] for e in tg], "outcome": p.outcome.kind, "msg": p.outcome.msg})
                o.ex = ex
                obls.append(o)
            if p.outcome.kind != "ret":
                add("no-panic-on-any-target-answer", z3.BoolVal(False))
                continue
            add("no-panic-on-any-target-answer", z3.BoolVal(True))
            rv = p.outcome.value
            okv = v.field(rv, "Ok", 0, VALQ)
            if nm == "exists":
                rty = "std::result::Result<std::option::Option<&value::value::Value>, std::string::String>"
                opt = v.field(r, "Ok", 0, "std::option::Option<&value::value::Value>")
                missing = z3.Or(v.is_variant(r, "Err", rty), z3.And(v.is_variant(r, "Ok", rty), v.is_variant(opt, "None", "std::option::Option<T>")))
                is_false = z3.And(v.is_variant(rv, "Ok", RES), v.is_variant(okv, "Boolean", VALQ), z3.Not(v.field(okv, "Boolean", 0, "bool").e))
                add("rejected-read-is-a-missing-field", z3.Implies(missing, z3.And(is_false, z3.BoolVal(len(tg) == 1))))
            if nm == "del":
                rty = "std::result::Result<std::option::Option<value::value::Value>, std::string::String>"
                rejected = v.is_variant(r, "Err", rty)
                is_null = z3.And(v.is_variant(rv, "Ok", RES), v.is_variant(okv, "Null", VALQ))
                add("rejected-deletion-is-contained", z3.Implies(rejected, z3.And(is_null, z3.BoolVal(len(tg) == 1 and tg[0]["op"] == "target_remove"))))
        if n_t == 0:
            raise Unencodable(f"stdlib {nm}: no path performs a target operation (vacuous)")
    return obls, fns
