"""C02 -- `Op::type_info` never drops the fallibility of an operand that runs.

The compiler accepts an expression without error handling exactly when its type is infallible.  For a binary operator
this is sound only if

  (F)  a fallible operand that is evaluated makes the result fallible (`a ?? b`: only when both are fallible -- the
       rhs runs only if the lhs failed);
  (K)  an operand that is evaluated and whose kind the runtime operator rejects makes the result fallible
       (checked for `&&`: `try_and` fails unless both operands are boolean or null).

`Op::type_info` is executed from its MIR for every opcode with the fallibility of every `TypeDef` tracked as a
boolean term: the `TypeDef` combinators (`union`, `with_kind`, `fallible`, `infallible`, `maybe_fallible`,
`fallible_unless`, `merge_overwrite`, constructors) are given their fallibility semantics (read from
src/compiler/type_def.rs: union/merge take the worse of both, `fallible_unless(k)` adds "kind outside k"), kinds stay
uninterpreted.  Children are oracles with an arbitrary fallibility flag.

Found through observations of two seeding sub-agents (`parse_int("abc") / 2` and `true && 5` are accepted and fail)."""
import re
from lemma import *
from nodelemmas import Obl
from stateflowlemmas import StateOracle, m_clone_state, m_merge
from typeflowlemmas import m_typeinfo_new

TD = "compiler::type_def::TypeDef"


def _uid(ex, st, v):
    if isinstance(v, Ref) or (isinstance(v, Lazy) and is_ref(v.ty)):
        c, p = ex.deref_target(st, v)
        v = ex.read(st, c, p)
    return ex.val_name(st, v), v


def F(ex, st, v):
    uid, _ = _uid(ex, st, v)
    return st.ghost.get("F", {}).get(uid, z3.Bool(f"fallible({uid})"))


def _new(ex, st, name, fall):
    n = next(ex.counter)
    v = ex.fresh(TD, f"{name}#{n}")
    st.ghost.setdefault("F", {})[v.uid] = fall
    return v


def m_td(ex, st, callee, args, dest_ty, frame, depth):
    name = re.search(r"TypeDef::(\w+)", callee).group(1)
    if name in ("float", "boolean", "integer", "bytes", "null", "timestamp", "any", "never", "object", "array", "regex", "undefined"):
        return [(st, Outcome("ret", _new(ex, st, name, z3.BoolVal(False))))]
    a_uid, _ = _uid(ex, st, args[0])
    fa = F(ex, st, args[0])
    if name == "is_fallible":
        return [(st, Outcome("ret", Prim("bool", fa)))]
    if name == "is_infallible":
        return [(st, Outcome("ret", Prim("bool", z3.Not(fa))))]
    if name == "fallible":
        return [(st, Outcome("ret", _new(ex, st, f"fallible({a_uid})", z3.BoolVal(True))))]
    if name == "infallible":
        return [(st, Outcome("ret", _new(ex, st, f"infallible({a_uid})", z3.BoolVal(False))))]
    if name == "maybe_fallible":
        return [(st, Outcome("ret", _new(ex, st, f"maybe_fallible({a_uid})", ex.as_prim(args[1]).e)))]
    if name in ("union", "merge_overwrite"):
        b_uid, _ = _uid(ex, st, args[1])
        return [(st, Outcome("ret", _new(ex, st, f"{name}({a_uid},{b_uid})", z3.Or(fa, F(ex, st, args[1])))))]
    if name in ("returns", "kind", "returns_mut", "kind_mut"):
        return [(st, Outcome("ret", ex.fresh(dest_ty, f"{name}({a_uid})")))]
    if name in ("is_never", "is_null", "is_boolean", "is_bytes", "is_integer", "is_float"):
        return [(st, Outcome("ret", Prim("bool", z3.Bool(f"{name}({a_uid})"))))]
    if name in ("with_kind", "with_returns", "impure", "pure", "upgrade_undefined", "or_null", "or_bytes"):
        return [(st, Outcome("ret", _new(ex, st, f"{name}({a_uid})", fa)))]
    if name == "fallible_unless":
        kname = ex.val_name(st, args[1])
        atom = z3.Bool(f"outside({a_uid},{kname})")
        st.ghost.setdefault("unless", []).append((a_uid, kname, atom))
        return [(st, Outcome("ret", _new(ex, st, f"fallible_unless({a_uid},{kname})", z3.Or(fa, atom))))]
    raise Unencodable(f"TypeDef::{name}: no fallibility semantics in falliblelemmas")


def m_td_clone(ex, st, callee, args, dest_ty, frame, depth):
    c, p = ex.deref_target(st, args[0])
    return [(st, Outcome("ret", ex.read(st, c, p)))]


ORACLES = [(re.compile(r"as Expression>::(apply_type_info|type_info|resolve_constant)$"), StateOracle()),
           (re.compile(r"^<TypeState as Clone>::clone$"), m_clone_state),
           (re.compile(r"TypeState::merge$"), m_merge),
           (re.compile(r"^TypeInfo::new::<"), m_typeinfo_new),
           (re.compile(r"^<TypeDef as Clone>::clone$"), m_td_clone),
           (re.compile(r"^TypeDef::\w+(::<.*>)?$"), m_td)]
OPAQUE = [r"^<TypeDef as Deref(Mut)?>::deref(_mut)?$", r"<impl value::kind::Kind>::\w+$", r"^constant_arithmetic_produces_nan$",
          r"^<std::option::Option<value::value::Value> as PartialEq>::eq$", r"<impl f64>::is_normal$", r"^<NotNan<f64> as Deref>::deref$", r"^Arguments::<'_>::"]


def obligations(S):
    obls, fns = [], []
    f = S.method("Expression", "Op", "type_info")
    ex = S.executor(oracles=ORACLES, opaque=OPAQUE)
    ex.feas_timeout_ms = 200
    paths = ex.run(f, [ex.fresh("&op::Op", "self"), ex.fresh("&TypeState", "state0")])
    fns.append((f.name, f.text_hash))
    for n_, h in ex.stats["fns_entered"].items():
        fns.append((n_, h))
    vs = {k: n for n, k in S.types.enum_variants("parser::ast::Opcode")}
    LHS, RHS = "self*.0.0.0", "self*.1.0.0"
    seen = set()
    for pi, p in enumerate(paths):
        op = "?"
        for c in p.st.pc:
            m = re.match(r"^(\d+) == discr\(self\*\.2\)$", str(c).replace("\n", " "))
            if m:
                op = vs.get(int(m.group(1)), m.group(1))
        seen.add(op)

        def add(tag, post, detail=None):
            role = f"C02:Op::type_info[{op}]:{tag}"
            o = Obl(role, {"C02"}, f"{role}#path{pi}", p, post, detail)
            o.ex = ex
            obls.append(o)
        if p.outcome.kind != "ret":
            add(p.outcome.kind, z3.BoolVal(False), {"msg": p.outcome.msg})
            continue
        res_td = ex.agg_field(p.st, p.outcome.value, 1, TD)
        fr = F(ex, p.st, res_td)
        typed = {}
        for e in p.st.trace:
            if e["kind"] in ("apply_type_info", "type_info"):
                typed.setdefault(e["child"], f"typedef#{e['n']}[{e['child']}]")
        detail = {"result": ex.val_name(p.st, res_td)[:120], "result_fallible": str(z3.simplify(fr))[:200], "typed": sorted(typed)}
        fl = z3.Bool(f"fallible({typed[LHS]})") if LHS in typed else None
        frhs = z3.Bool(f"fallible({typed[RHS]})") if RHS in typed else None
        if fl is None:
            add("lhs-is-typed", z3.BoolVal(False), detail)
            continue
        if op == "Err":
            if frhs is not None:
                add("both-operands-fallible-makes-the-result-fallible", z3.Implies(z3.And(fl, frhs), fr), detail)
            continue
        add("fallible-lhs-makes-the-result-fallible", z3.Implies(fl, fr), detail)
        # an operand whose compile-time constant is known on this path evaluates to that constant and cannot fail
        # (constant-soundness lemmas of C12): its fallibility flag is irrelevant
        rhs_const = False
        for e in p.st.trace:
            if e["kind"] == "resolve_constant" and e["child"] == RHS:
                rc = z3.BitVec(f"discr(rc#{e['n']}[{RHS}])", 64)
                d = p.st.simp(rc)
                if z3.is_bv_value(d) and d.as_long() == 1:
                    rhs_const = True
        if frhs is not None and not rhs_const:
            add("fallible-rhs-that-runs-makes-the-result-fallible", z3.Implies(frhs, fr), detail)
        if op == "Or" and frhs is None:
            # the rhs is statically dead: the lhs must never be falsy at runtime -- its kind excludes null, boolean AND
            # undefined (a missing field reads as null), or its constant is `true`
            pcs = [str(c).replace("\n", " ") for c in p.st.pc]

            def polarity(sub):
                for c in pcs:
                    k = 0
                    while c.startswith("Not(") and c.endswith(")"):
                        c, k = c[4:-1], k + 1
                    if sub in c:
                        return k % 2 == 0
                return None
            const_true = polarity("Some(Boolean(True))") is True
            kinds_ok = polarity("contains_null(") is False and polarity("contains_boolean(") is False and polarity("contains_undefined(") is False
            o = Obl("C01:Op::type_info[Or]:rhs-is-dead-only-when-the-lhs-is-never-falsy", {"C01", "C02"},
                    f"C01:Op::type_info[Or]:rhs-is-dead-only-when-the-lhs-is-never-falsy#path{pi}", p, z3.BoolVal(bool(const_true or kinds_ok)),
                    {"path_condition": pcs[1:6]})
            o.ex = ex
            obls.append(o)
        if op == "And" and frhs is not None:
            atoms = [a for (u, k, a) in p.st.ghost.get("unless", []) if u == typed[RHS] and "null" in k and "boolean" in k]
            add("rhs-that-runs-must-be-boolean-or-null-or-the-result-is-fallible", z3.Implies(atoms[0], fr) if atoms else z3.BoolVal(False),
                {**detail, "kind_checks": [(u, k) for (u, k, a) in p.st.ghost.get("unless", [])]})
    want = {"Err", "Or", "And", "Eq", "Ne", "Gt", "Ge", "Lt", "Le", "Div", "Add", "Sub", "Mul", "Merge"}
    if not want <= seen:
        raise Unencodable(f"Op::type_info: opcodes seen {sorted(seen)} (expected all of {sorted(want)})")
    return obls, sorted(set(fns))


def block_obligations(S, bounds=None):
    """Block::type_info: a member that can run (no member before it is never-typed) and is fallible makes the block
    fallible -- including a member that is itself never-typed (`{ 10 / .d; return 1 }` nested in an outer block)."""
    bounds = bounds or {"block": 3}
    obls, fns = [], []
    f = S.method("Expression", "Block", "type_info")
    fns.append((f.name, f.text_hash))
    n_checked = 0
    for n in range(1, bounds.get("block", 3) + 1):
        ex = S.executor(oracles=ORACLES, opaque=OPAQUE + [r"LocalEnv::apply_child_scope$", r"^<LocalEnv as Clone>::clone$", r"merge_keep$", r"^<value::kind::Kind as Clone>::clone$"])
        ex.feas_timeout_ms = 200
        st = State()
        items = []
        for i in range(n):
            c = f"self.inner[{i}]"
            st.heap[c] = ex.fresh("compiler::expression::Expr", f"elem{i}")
            items.append(c)
        st.heap["*self"] = Agg("compiler::expression::block::Block", {0: Seq("Vec<Expr>", items, "slice")}, origin="self*")
        paths = ex.run(f, [Ref("&block::Block", "*self", ()), ex.fresh("&TypeState", "state0")], st)
        for n_, h in ex.stats["fns_entered"].items():
            fns.append((n_, h))
        for pi, p in enumerate(paths):
            role = f"C02:Block::type_info(n={n}):fallible-member-that-can-run-makes-the-block-fallible"
            if p.outcome.kind != "ret":
                o = Obl(f"C02:Block::type_info:{p.outcome.kind}", {"C02"}, f"C02:Block::type_info:{p.outcome.kind}#n{n}#path{pi}", p, z3.BoolVal(False), {"msg": p.outcome.msg})
                o.ex = ex
                obls.append(o)
                continue
            fr = F(ex, p.st, ex.agg_field(p.st, p.outcome.value, 1, TD))
            typed = {}
            for e in p.st.trace:
                if e["kind"] in ("apply_type_info", "type_info"):
                    typed.setdefault(e["child"], f"typedef#{e['n']}[{e['child']}]")
            pcs = [str(c).replace("\n", " ") for c in p.st.pc]

            def never(i):
                """True / False / None: is member i never-typed on this path?"""
                lab = typed.get(f"self.inner[{i}]")
                if lab is None:
                    return None
                for c in pcs:
                    k = 0
                    while c.startswith("Not(") and c.endswith(")"):
                        c, k = c[4:-1], k + 1
                    if c.startswith("is_never(") and lab in c:
                        return k % 2 == 0
                return None
            conj = []
            for i in range(n):
                lab = typed.get(f"self.inner[{i}]")
                if lab is None:
                    conj.append(z3.BoolVal(False))       # every member is typed
                    continue
                if all(never(j) is False for j in range(i)):
                    conj.append(z3.Implies(z3.Bool(f"fallible({lab})"), fr))
            n_checked += 1
            o = Obl(role, {"C02"}, f"{role}#path{pi}", p, z3.And(conj) if conj else z3.BoolVal(True),
                    {"result_fallible": str(z3.simplify(fr))[:200], "never": [never(i) for i in range(n)]})
            o.ex = ex
            obls.append(o)
    if not n_checked:
        raise Unencodable("Block::type_info: no returning path (vacuous)")
    return obls, sorted(set(fns))


def if_obligations(S):
    """IfStatement::type_info: a fallible branch makes the `if` fallible (either branch can run)"""
    obls, fns = [], []
    f = S.method("Expression", "IfStatement", "type_info")
    fns.append((f.name, f.text_hash))
    ex = S.executor(oracles=ORACLES, opaque=OPAQUE + [r"merge_keep$", r"^<value::kind::Kind as Clone>::clone$", r"^<Kind as Clone>::clone$"])
    ex.feas_timeout_ms = 200
    paths = ex.run(f, [ex.fresh("&if_statement::IfStatement", "self"), ex.fresh("&TypeState", "state0")])
    for n_, h in ex.stats["fns_entered"].items():
        fns.append((n_, h))
    n = 0
    for pi, p in enumerate(paths):
        role = "C02:IfStatement::type_info:fallible-branch-makes-the-if-fallible"
        if p.outcome.kind != "ret":
            o = Obl(f"C02:IfStatement::type_info:{p.outcome.kind}", {"C02"}, f"C02:IfStatement::type_info:{p.outcome.kind}#path{pi}", p, z3.BoolVal(False), {"msg": p.outcome.msg})
            o.ex = ex
            obls.append(o)
            continue
        fr = F(ex, p.st, ex.agg_field(p.st, p.outcome.value, 1, TD))
        conj = []
        for e in p.st.trace:
            if e["kind"] in ("apply_type_info", "type_info") and e["child"] in ("self.1", "self.2.Some.0"):
                conj.append(z3.Implies(z3.Bool(f"fallible(typedef#{e['n']}[{e['child']}])"), fr))
        n += len(conj)
        o = Obl(role, {"C02"}, f"{role}#path{pi}", p, z3.And(conj) if conj else z3.BoolVal(False), {"result_fallible": str(z3.simplify(fr))[:200]})
        o.ex = ex
        obls.append(o)
    if n < 3:
        raise Unencodable(f"IfStatement::type_info: only {n} branch typings observed (vacuous)")
    return obls, sorted(set(fns))


def if_battery():
    N = {"accepted_never_fails": True}
    return [
        ({"source": ".r = 1 + { if .a == 1 { 1 } else { to_int(.b) } }\n", "event": {"a": 2, "b": "x"}}, N),
        ({"source": ".r = 1 + { if .a == 1 { to_int(.b) } else { 1 } }\n", "event": {"a": 1, "b": "x"}}, N),
        ({"source": ".r = to_string({ if .a == 1 { 1 } else if .a == 2 { to_int(.b) } else { 3 } })\n", "event": {"a": 2, "b": "x"}}, N),
        ({"source": ".r = 1 + { if .a == 1 { 1 } else { 2 } }\n", "event": {"a": 2}}, {"outcome": "ok", "event_eq": {"r": {"Integer": "3"}}}),
    ]


def block_battery():
    N = {"accepted_never_fails": True}
    return [
        ({"source": ".early = { { 10 / .d; return \"early\" } } == \"early\"\n", "event": {"d": 0}}, N),
        ({"source": ".r = { { to_int(.count); return 1 } } == 1\n", "event": {"count": "x"}}, N),
        ({"source": ".r = { if .f == true { 10 / .d; return 1 } else { return 2 } } == 1\n", "event": {"f": True, "d": 0}}, N),
        ({"source": ".r = { 1; 2 } == 2\n", "event": {}}, {"outcome": "ok", "event_eq": {"r": {"Boolean": True}}}),
    ]


def battery():
    N = {"accepted_never_fails": True}
    return [
        ({"source": "x = {}\ny = x.foo || \"s\"\n.r = y\n", "event": {}}, {"outcome": "ok", "types_sound": True}),
        ({"source": "x = {\"a\": 1}\ndel(x.a)\ny = x.a || 5\n.r = y\n", "event": {}}, {"outcome": "ok", "types_sound": True}),
        ({"source": ".r = parse_int(\"abc\") / 2\n", "event": {}}, N),
        ({"source": ".r = parse_int(.s) / 2.5\n", "event": {"s": "zz"}}, N),
        ({"source": ".r = true && 5\n", "event": {}}, N),
        ({"source": "t = true\n.r = t && \"s\"\n", "event": {}}, N),
        ({"source": ".r = false || parse_int(\"abc\")\n", "event": {}}, N),
        ({"source": ".r = null || parse_int(\"abc\")\n", "event": {}}, N),
        ({"source": ".r = parse_int(\"abc\") == 2\n", "event": {}}, N),
        ({"source": ".r = (parse_int(\"abc\") ?? 1) / 2\n", "event": {}}, {"outcome": "ok", "event_eq": {"r": {"Float": "0x3fe0000000000000"}}}),
        ({"source": ".r = true && false\n", "event": {}}, {"outcome": "ok", "event_eq": {"r": {"Boolean": False}}}),
        ({"source": ".r = 10 / 4\n", "event": {}}, {"outcome": "ok", "event_eq": {"r": {"Float": "0x4004000000000000"}}}),
    ]
