"""C18 (array kernels) + the index-arithmetic obligations of C04: lemmas over the MIR of
`array_index` and `<Vec<Value> as ValueCollection>::{get_value, insert_value, remove_value}` (src/value/value/crud/mod.rs).

The array is a list of n opaque elements (n = 0..N, enumerated); the index is a *symbolic isize over its full
range*.  `Vec` itself is std: its operations (len, push, insert, remove, index_mut, slice get) are models over
that list, forking on the symbolic position.  Padding loops run at most LOOP iterations per path: an index
whose padding needs more is outside the bound (the number of paddings equals |index| by design) and is
reported as such, never as success.

Laws (property C18, for one array level):
  G   get_value(k) is Some(element i)  <=>  i = k or i = k + len, 0 <= i < len
  I1  after insert_value(k, x): get_value(k) = Some(x)
  I2  frame: old element i sits at i (+ front padding for negative k) unless it is the replaced one;
      every other new position holds Null; the returned old value is the replaced element (or None)
  R   remove_value(k) returns exactly what get_value(k) returned before, and removes that position only
  P   no panic / overflow on any path (C04; dev profile = overflow-checks on)"""
import re
from lemma import *
from nodelemmas import Obl

VAL = "value::value::Value"
OPT_REF = "std::option::Option<&value::value::Value>"


def _seq_of(ex, st, r):
    """(cell, path, Seq) for a reference to a Vec / slice"""
    c, p = ex.deref_target(st, r)
    v = ex.read(st, c, p)
    if not isinstance(v, Seq):
        raise Unencodable(f"Vec model: expected a list, got {v!r}")
    return c, p, v


def _split_index(ex, st, idx, n, allow_end=False):
    """fork on a symbolic usize position: yields (state, i) for i in 0..n(-1) and (state, None) for out of range"""
    e = st.simp(idx)
    hi = n + 1 if allow_end else n
    if z3.is_bv_value(e):
        i = e.as_long()
        return [(st, i if i < hi else None)]
    outs = []
    conds = [(i, idx == z3.BitVecVal(i, 64)) for i in range(hi)] + [(None, z3.UGE(idx, z3.BitVecVal(hi, 64)))]
    feas = [(i, c) for i, c in conds if ex.feasible(st, c)]
    for j, (i, c) in enumerate(feas):
        s2 = st.fork() if j < len(feas) - 1 else st
        s2.assume(c)
        outs.append((s2, i))
    return outs


def m_vec_len(ex, st, callee, args, dest_ty, frame, depth):
    _, _, s = _seq_of(ex, st, args[0])
    return [(st, Outcome("ret", Prim("usize", z3.BitVecVal(len(s.items), 64))))]


def m_vec_push(ex, st, callee, args, dest_ty, frame, depth):
    c, p, s = _seq_of(ex, st, args[0])
    cell = f"el{next(ex.counter)}"
    st.heap[cell] = args[1]
    ex.write(st, c, p, Seq(s.ty, s.items + (cell,), s.kind))
    return [(st, Outcome("ret", UNIT))]


def m_vec_insert(ex, st, callee, args, dest_ty, frame, depth):
    c, p, s = _seq_of(ex, st, args[0])
    out = []
    for s2, i in _split_index(ex, st, ex.as_prim(args[1]).e, len(s.items), allow_end=True):
        if i is None:
            out.append((s2, Outcome("panic", msg="Vec::insert index out of bounds")))
            continue
        cell = f"el{next(ex.counter)}"
        s2.heap[cell] = args[2]
        ex.write(s2, c, p, Seq(s.ty, s.items[:i] + (cell,) + s.items[i:], s.kind))
        out.append((s2, Outcome("ret", UNIT)))
    return out


def m_vec_remove(ex, st, callee, args, dest_ty, frame, depth):
    c, p, s = _seq_of(ex, st, args[0])
    out = []
    for s2, i in _split_index(ex, st, ex.as_prim(args[1]).e, len(s.items)):
        if i is None:
            out.append((s2, Outcome("panic", msg="Vec::remove index out of bounds")))
            continue
        old = s2.heap[s.items[i]]
        ex.write(s2, c, p, Seq(s.ty, s.items[:i] + s.items[i + 1:], s.kind))
        s2.ghost.setdefault("removed", []).append(s.items[i])
        out.append((s2, Outcome("ret", old)))
    return out


def m_vec_index_mut(ex, st, callee, args, dest_ty, frame, depth):
    c, p, s = _seq_of(ex, st, args[0])
    out = []
    for s2, i in _split_index(ex, st, ex.as_prim(args[1]).e, len(s.items)):
        if i is None:
            out.append((s2, Outcome("panic", msg="index out of bounds")))
        else:
            out.append((s2, Outcome("ret", Ref("&mut T", s.items[i], ()))))
    return out


def m_slice_get(ex, st, callee, args, dest_ty, frame, depth):
    c, p, s = _seq_of(ex, st, args[0])
    out = []
    for s2, i in _split_index(ex, st, ex.as_prim(args[1]).e, len(s.items)):
        if i is None:
            out.append((s2, Outcome("ret", Enum(dest_ty, bv64(0), {}))))
        else:
            out.append((s2, Outcome("ret", ex.mk_enum(dest_ty, "Some", [Ref("&T", s.items[i], ())]))))
    return out


def m_mem_replace(ex, st, callee, args, dest_ty, frame, depth):
    c, p = ex.deref_target(st, args[0])
    old = ex.read(st, c, p)
    ex.write(st, c, p, args[1])
    return [(st, Outcome("ret", old))]


VEC_MODELS = [
    (re.compile(r"^Vec::<.*>::len$|^core::slice::<impl \[.*\]>::len$"), m_vec_len),
    (re.compile(r"^Vec::<.*>::push$"), m_vec_push),
    (re.compile(r"^Vec::<.*>::insert$"), m_vec_insert),
    (re.compile(r"^Vec::<.*>::remove$"), m_vec_remove),
    (re.compile(r"^<Vec<.*> as Index(Mut)?<usize>>::index(_mut)?$"), m_vec_index_mut),
    (re.compile(r"^core::slice::<impl \[.*\]>::get(_mut)?::<usize>$"), m_slice_get),
    (re.compile(r"^(std|core)::mem::replace::<"), m_mem_replace),
]


class VecExecutor(Executor):
    def rvalue(self, st, frame, rv, dest_ty=None):
        if rv[0] == "unop" and rv[1] == "PtrMetadata":
            v = self.operand(st, frame, rv[2])
            _, _, s = _seq_of(self, st, v)
            return Prim("usize", z3.BitVecVal(len(s.items), 64))
        return super().rvalue(st, frame, rv, dest_ty)


def setup(S, n, loop_bound):
    ex = VecExecutor(S.prog, S.types, oracles=VEC_MODELS, loop_bound=loop_bound)
    ex.opaque = []
    st = State()
    cells = []
    for i in range(n):
        c = f"arr[{i}]"
        st.heap[c] = ex.fresh(VAL, f"e{i}")
        cells.append(c)
    st.heap["arr"] = Seq("Vec<Value>", cells)
    return ex, st, Ref("&mut Vec<value::value::Value>", "arr", ()), cells


def fn_of(S, name):
    c = [f for f in S.prog.find("ValueCollection", "Vec", name)]
    if len(c) != 1:
        raise Unencodable(f"<Vec<Value> as ValueCollection>::{name}: {len(c)} bodies")
    return c[0]


def unique_key(ex, p, key, limit=3):
    """the set of index values consistent with the path (up to `limit`), or None if more"""
    s = z3.Solver()
    for c in ex.invariants:
        s.add(c)
    for c in p.st.pc:
        s.add(c)
    vals = []
    while len(vals) <= limit:
        if s.check() != z3.sat:
            return vals
        k = s.model().eval(key, model_completion=True).as_signed_long()
        vals.append(k)
        s.add(key != z3.BitVecVal(k, 64))
    return None


def obligations(S, N=3, LOOP=8):
    obls, fns = [], []
    f_get, f_ins, f_rem = fn_of(S, "get_value"), fn_of(S, "insert_value"), fn_of(S, "remove_value")
    out_of_bound = {"insert_value": 0}
    for f in (f_get, f_ins, f_rem):
        fns.append((f.name, f.text_hash))
    for n in range(0, N + 1):
        key = z3.BitVec("k", 64)
        K = Prim("isize", key)

        def mk(role, props, p, post, ex, detail=None):
            o = Obl(role, set(props), f"{role}#n{n}#path{len(obls)}", p, post, detail)
            o.ex = ex
            obls.append(o)
        # ---------------- G: get_value
        ex, st, arr, cells = setup(S, n, LOOP)
        st.heap["keycell"] = K
        paths = ex.run(f_get, [arr, Ref("&isize", "keycell", ())], st)
        for n_, h in ex.stats["fns_entered"].items():
            fns.append((n_, h))
        for p in paths:
            if p.outcome.kind != "ret":
                mk(f"C18:Vec::get_value:{p.outcome.kind}", ["C18", "C04"], p, z3.BoolVal(False), ex, {"msg": p.outcome.msg, "n": n})
                continue
            mk("C04:Vec::get_value:path-ends-in-return", ["C04"], p, z3.BoolVal(True), ex, {"n": n})
            v = V(ex, p.st)
            r = p.outcome.value
            in_range = lambda i: z3.Or(key == z3.BitVecVal(i, 64), key == z3.BitVecVal(i - n, 64))
            d = p.st.simp(ex.discriminant(p.st, r))
            if z3.is_bv_value(d) and d.as_long() == 1:
                ref = ex.enum_field(p.st, r, "Some", 0, "&T")
                i = cells.index(ref.cell) if isinstance(ref, Ref) and ref.cell in cells else None
                mk("C18:Vec::get_value:some-is-the-indexed-element", ["C18"], p, in_range(i) if i is not None else z3.BoolVal(False), ex, {"n": n, "i": i})
            else:
                any_in = z3.Or([in_range(i) for i in range(n)]) if n else z3.BoolVal(False)
                mk("C18:Vec::get_value:none-only-when-out-of-range", ["C18"], p, z3.And(v.is_variant(r, "None", OPT_REF), z3.Not(any_in)), ex, {"n": n})
        # ---------------- GM: get_mut_value selects exactly the element get_value selects (the drivers descend through it)
        f_gm = fn_of(S, "get_mut_value")
        fns.append((f_gm.name, f_gm.text_hash))
        ex, st, arr, cells = setup(S, n, LOOP)
        st.heap["keycell"] = K
        for p in ex.run(f_gm, [arr, Ref("&isize", "keycell", ())], st):
            if p.outcome.kind != "ret":
                mk(f"C18:Vec::get_mut_value:{p.outcome.kind}", ["C18", "C04"], p, z3.BoolVal(False), ex, {"msg": p.outcome.msg, "n": n})
                continue
            mk("C04:Vec::get_mut_value:path-ends-in-return", ["C04"], p, z3.BoolVal(True), ex, {"n": n})
            v = V(ex, p.st)
            r = p.outcome.value
            in_range = lambda i: z3.Or(key == z3.BitVecVal(i, 64), key == z3.BitVecVal(i - n, 64))
            d = p.st.simp(ex.discriminant(p.st, r))
            if z3.is_bv_value(d) and d.as_long() == 1:
                ref = ex.enum_field(p.st, r, "Some", 0, "&mut T")
                i = cells.index(ref.cell) if isinstance(ref, Ref) and ref.cell in cells else None
                mk("C18:Vec::get_mut_value:some-is-the-indexed-element", ["C18"], p, in_range(i) if i is not None else z3.BoolVal(False), ex, {"n": n, "i": i})
            else:
                any_in = z3.Or([in_range(i) for i in range(n)]) if n else z3.BoolVal(False)
                mk("C18:Vec::get_mut_value:none-only-when-out-of-range", ["C18"], p, z3.And(v.is_variant(r, "None", "std::option::Option<&mut T>"), z3.Not(any_in)), ex, {"n": n})
        for n_, h in ex.stats["fns_entered"].items():
            fns.append((n_, h))
        # ---------------- I: insert_value, then get_value on the resulting array
        ex, st, arr, cells = setup(S, n, LOOP)
        x = ex.fresh(VAL, "x")
        paths = ex.run(f_ins, [arr, K, x], st)
        for n_, h in ex.stats["fns_entered"].items():
            fns.append((n_, h))
        for p in paths:
            if p.outcome.kind == "loopbound":
                out_of_bound["insert_value"] += 1
                continue
            if p.outcome.kind != "ret":
                mk(f"C18:Vec::insert_value:{p.outcome.kind}", ["C18", "C04"], p, z3.BoolVal(False), ex, {"msg": p.outcome.msg, "n": n})
                continue
            mk("C04:Vec::insert_value:path-ends-in-return", ["C04"], p, z3.BoolVal(True), ex, {"n": n})
            ks = unique_key(ex, p, key)
            if ks is None or len(ks) != 1:
                mk("C18:Vec::insert_value:path-determines-index", ["C18"], p, z3.BoolVal(False), ex, {"keys": ks, "n": n})
                continue
            k = ks[0]
            new = p.st.heap["arr"].items
            v = V(ex, p.st)
            newlen = len(new)
            tgt = k if k >= 0 else newlen + k
            exp_len = max(n, k + 1) if k >= 0 else max(n, -k)
            shift = 0 if k >= 0 else newlen - n
            conj = [z3.BoolVal(newlen == exp_len), z3.BoolVal(0 <= tgt < newlen)]
            if 0 <= tgt < newlen:
                conj.append(v.same(p.st.heap[new[tgt]], x))
                for i in range(n):
                    j = i + shift
                    if j == tgt:
                        continue
                    conj.append(z3.BoolVal(0 <= j < newlen and new[j] == cells[i]) if True else z3.BoolVal(False))
                    if 0 <= j < newlen:
                        conj.append(v.same(p.st.heap[new[j]], Lazy(VAL, f"e{i}")))
                occupied = {i + shift for i in range(n)} | {tgt}
                for j in range(newlen):
                    if j not in occupied:
                        conj.append(v.is_variant(p.st.heap[new[j]], "Null", VAL))
                # returned old value
                r = p.outcome.value
                replaced = [i for i in range(n) if i + shift == tgt]
                if replaced:
                    conj.append(z3.And(v.is_variant(r, "Some", "std::option::Option<T>"), v.same(v.field(r, "Some", 0, VAL), Lazy(VAL, f"e{replaced[0]}"))))
                else:
                    conj.append(v.is_variant(r, "None", "std::option::Option<T>"))
            mk("C18:Vec::insert_value:frame-and-result", ["C18"], p, z3.And(conj), ex, {"n": n, "k": k, "newlen": newlen})
            # I1: read back through the real get_value
            st2 = p.st.fork()
            st2.heap["keycell"] = Prim("isize", z3.BitVecVal(k, 64))
            ex2 = ex
            for p2 in ex2.run(f_get, [arr, Ref("&isize", "keycell", ())], st2):
                ok = z3.BoolVal(False)
                if p2.outcome.kind == "ret":
                    r2 = p2.outcome.value
                    d = p2.st.simp(ex2.discriminant(p2.st, r2))
                    if z3.is_bv_value(d) and d.as_long() == 1:
                        ref = ex2.enum_field(p2.st, r2, "Some", 0, "&T")
                        if isinstance(ref, Ref):
                            ok = V(ex2, p2.st).same(p2.st.heap[ref.cell], x)
                mk("C18:Vec::insert-then-get", ["C18"], p2, ok, ex2, {"n": n, "k": k})
        # ---------------- R: remove_value agrees with get_value
        ex, st, arr, cells = setup(S, n, LOOP)
        st.heap["keycell"] = K
        paths = ex.run(f_rem, [arr, Ref("&isize", "keycell", ())], st)
        for n_, h in ex.stats["fns_entered"].items():
            fns.append((n_, h))
        for p in paths:
            if p.outcome.kind != "ret":
                mk(f"C18:Vec::remove_value:{p.outcome.kind}", ["C18", "C04"], p, z3.BoolVal(False), ex, {"msg": p.outcome.msg, "n": n})
                continue
            mk("C04:Vec::remove_value:path-ends-in-return", ["C04"], p, z3.BoolVal(True), ex, {"n": n})
            v = V(ex, p.st)
            r = p.outcome.value
            new = p.st.heap["arr"].items
            d = p.st.simp(ex.discriminant(p.st, r))
            in_range = lambda i: z3.Or(key == z3.BitVecVal(i, 64), key == z3.BitVecVal(i - n, 64))
            if z3.is_bv_value(d) and d.as_long() == 1:
                removed = p.st.ghost.get("removed", [])
                i = cells.index(removed[0]) if len(removed) == 1 and removed[0] in cells else None
                ok = i is not None and list(new) == [c for c in cells if c != cells[i]]
                post = z3.And(z3.BoolVal(ok), in_range(i) if i is not None else z3.BoolVal(False),
                              v.same(v.field(r, "Some", 0, VAL), Lazy(VAL, f"e{i}")) if i is not None else z3.BoolVal(False))
                mk("C18:Vec::remove_value:removes-what-get-returns", ["C18"], p, post, ex, {"n": n, "i": i})
            else:
                any_in = z3.Or([in_range(i) for i in range(n)]) if n else z3.BoolVal(False)
                mk("C18:Vec::remove_value:none-leaves-array-unchanged", ["C18"], p,
                   z3.And(v.is_variant(r, "None", "std::option::Option<T>"), z3.BoolVal(list(new) == cells), z3.Not(any_in)), ex, {"n": n})
    return obls, sorted(set(fns)), out_of_bound


# ----------------------------------------------------------------------------- native replay

def replayer(o, model):
    """VRL witness: arrays are built from literals, the index is a literal segment"""
    d = o.detail or {}
    n = d.get("n", 1)
    k = None
    try:
        k = model.eval(z3.BitVec("k", 64), model_completion=True).as_signed_long()
    except Exception:
        pass
    if "k" in d:
        k = d["k"]
    if k is None:
        return None
    arr = "[" + ", ".join(f'"e{i}"' for i in range(n)) + "]"
    if o.role.endswith(":panic") or ":panic" in o.role or "unreachable" in o.role:
        # a panic is never expected; reading is enough to drive the index arithmetic of the path code
        # (writing to a huge index would exhaust memory, which is out of scope)
        src = f".a = {arr}\n.got = .a[{k}]\n.r = del(.a[{k}])\n"
        if abs(k) <= 64:
            src += f".a[{k}] = \"x\"\n"
        return "run", {"source": src, "event": {}}, {"outcome": "ok"}
    if "get_mut_value" in o.role:
        # a nested write / delete below the index goes through get_mut_value; the read goes through get_value
        objs = "[" + ", ".join(f'{{"y": {i}}}' for i in range(n)) + "]"
        idx = k if k >= 0 else n + k
        inside = 0 <= idx < n
        src = f".a = {objs}\n.before = .a[{k}].y\n.removed = del(.a[{k}].y)\n.kept = .a\n"
        kept = [{"Object": ({} if (inside and i == idx) else {"y": {"Integer": str(i)}})} for i in range(n)]
        exp = {"outcome": "ok", "event_eq": {"removed": ({"Integer": str(idx)} if inside else "Null"), "before": ({"Integer": str(idx)} if inside else "Null"), "kept": {"Array": kept}}}
        return "run", {"source": src, "event": {}}, exp
    if "insert" in o.role:
        src = f".a = {arr}\n.a[{k}] = \"x\"\n.got = .a[{k}]\n"
        # reference result computed from the property statement
        newlen = max(n, k + 1) if k >= 0 else max(n, -k)
        if newlen > 64:
            return None
        tgt = k if k >= 0 else newlen + k
        shift = 0 if k >= 0 else newlen - n
        exp_arr = [None] * newlen
        for i in range(n):
            exp_arr[i + shift] = {"Bytes": f"e{i}"}
        exp_arr[tgt] = {"Bytes": "x"}
        exp_arr = [("Null" if e is None else e) for e in exp_arr]
        exp = {"outcome": "ok", "event_eq": {"a": {"Array": exp_arr}, "got": {"Bytes": "x"}}}
        return "run", {"source": src, "event": {}}, exp
    if "remove" in o.role:
        src = f".a = {arr}\n.got = .a[{k}]\n.removed = del(.a[{k}])\n"
        idx = k if k >= 0 else n + k
        if 0 <= idx < n:
            exp = {"outcome": "ok", "event_eq": {"removed": {"Bytes": f"e{idx}"}, "got": {"Bytes": f"e{idx}"},
                                                 "a": {"Array": [{"Bytes": f"e{i}"} for i in range(n) if i != idx]}}}
        else:
            exp = {"outcome": "ok", "event_eq": {"removed": "Null", "got": "Null", "a": {"Array": [{"Bytes": f"e{i}"} for i in range(n)]}}}
        return "run", {"source": src, "event": {}}, exp
    if "get" in o.role:
        src = f".a = {arr}\n.got = .a[{k}]\n"
        idx = k if k >= 0 else n + k
        exp = {"outcome": "ok", "event_eq": {"got": {"Bytes": f"e{idx}"} if 0 <= idx < n else "Null"}}
        return "run", {"source": src, "event": {}}, exp
    return None
