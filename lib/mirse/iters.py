"""A small lazy-iterator algebra for the symbolic executor: std iterator adaptors as values that are advanced on
demand (`next`), so that refactorings of loops into adaptor chains (`iter().zip(..).take_while(..)`,
`once(x).chain(repeat_n(y, n))`, `splice`, ...) stay encodable instead of ending in "unknown callee".

An `It` is immutable; advancing returns the new iterator, which the `next` model writes back through the `&mut`."""
import re
import z3
from symex import (SymVal, Prim, Lazy, Agg, Enum, Ref, Seq, IterVal, UNIT, Outcome, Unencodable, bv64, is_ref)


class It(SymVal):
    __slots__ = ("ty", "op", "a", "b", "f", "items", "v", "n")

    def __init__(self, op, ty="iter", a=None, b=None, f=None, items=(), v=None, n=None):
        self.op, self.ty, self.a, self.b, self.f, self.items, self.v, self.n = op, ty, a, b, f, tuple(items), v, n

    def __repr__(self):
        return f"It({self.op})"


EMPTY = It("list", items=())


def from_any(ex, st, x, by_value=False):
    """coerce an IterVal / Seq / array aggregate / reference to one of those into an It"""
    while isinstance(x, Ref) or (isinstance(x, Lazy) and is_ref(x.ty)):
        c, p = ex.deref_target(st, x)
        x = ex.read(st, c, p)
    if isinstance(x, It):
        return x
    if isinstance(x, IterVal):
        if x.f is not None:
            raise Unencodable("mapped IterVal passed to the iterator algebra")
        kind = x.kind
        if kind == "map":
            return It("list", items=[("pair", k, v) for k, v in x.items])
        if kind == "enum":
            return It("list", items=[("enum", i, c) for i, c in x.items])
        return It("list", items=[("val" if by_value else "ref", c) for c in x.items])
    if isinstance(x, Seq):
        if x.kind == "map":
            return It("list", items=[("pair", k, v) for k, v in x.items])
        return It("list", items=[("val" if by_value else "ref", c) for c in x.items])
    if isinstance(x, Agg) and (x.ty.startswith("[") or x.ty == "[..]"):
        return It("list", items=[("lit", x.fields[i]) for i in sorted(x.fields)])
    raise Unencodable(f"cannot iterate over {x!r}")


def _materialize(ex, st, item):
    k = item[0]
    if k == "ref":
        return Ref("&T", item[1], ())
    if k == "val":
        return st.heap[item[1]]
    if k == "lit":
        return item[1]
    if k == "pair":
        return Agg("(&K, &V)", {0: Ref("&K", item[1], ()), 1: Ref("&V", item[2], ())})
    if k == "enum":
        return Agg("(usize, T)", {0: Prim("usize", z3.BitVecVal(item[1], 64)), 1: st.heap[item[2]]})
    raise Unencodable(f"iterator item {item!r}")


def _bool_fork(ex, st, b):
    """[(state, True/False)] for a symbolic bool"""
    e = st.simp(b)
    if z3.is_true(e):
        return [(st, True)]
    if z3.is_false(e):
        return [(st, False)]
    out = []
    opts = [o for o, c in ((True, b), (False, z3.Not(b))) if ex.feasible(st, c)]
    for i, o in enumerate(opts):
        s2 = st.fork() if i < len(opts) - 1 else st
        s2.assume(b if o else z3.Not(b))
        out.append((s2, o))
    return out


def it_next(ex, st, it, frame, depth, fuel=12):
    """-> [(state, item or None, iterator after)]   (an Outcome instead of an item for panics in closures)"""
    if fuel <= 0:
        raise Unencodable("iterator algebra: fuel exhausted")
    op = it.op
    if op == "list":
        if not it.items:
            return [(st, None, it)]
        return [(st, _materialize(ex, st, it.items[0]), It("list", items=it.items[1:]))]
    if op == "once":
        if it.v is None:
            return [(st, None, it)]
        return [(st, it.v, It("once", v=None))]
    if op == "repeat_n":
        n = it.n
        out = []
        for s2, is_zero in _bool_fork(ex, st, n == z3.BitVecVal(0, n.size())):
            if is_zero:
                out.append((s2, None, it))
            else:
                out.append((s2, it.v, It("repeat_n", v=it.v, n=n - 1)))
        return out
    if op == "chain":
        out = []
        for s2, x, a2 in it_next(ex, st, it.a, frame, depth, fuel - 1):
            if x is not None:
                out.append((s2, x, It("chain", a=a2, b=it.b)))
            else:
                for s3, y, b2 in it_next(ex, s2, it.b, frame, depth, fuel - 1):
                    out.append((s3, y, It("chain", a=EMPTY, b=b2)))
        return out
    if op == "zip":
        out = []
        for s2, x, a2 in it_next(ex, st, it.a, frame, depth, fuel - 1):
            if x is None:
                out.append((s2, None, It("zip", a=a2, b=it.b)))
                continue
            for s3, y, b2 in it_next(ex, s2, it.b, frame, depth, fuel - 1):
                if y is None:
                    out.append((s3, None, It("zip", a=a2, b=b2)))
                else:
                    out.append((s3, Agg("(A, B)", {0: x, 1: y}), It("zip", a=a2, b=b2)))
        return out
    if op == "enumerate":
        out = []
        for s2, x, a2 in it_next(ex, st, it.a, frame, depth, fuel - 1):
            if x is None:
                out.append((s2, None, It("enumerate", a=a2, n=it.n)))
            else:
                out.append((s2, Agg("(usize, T)", {0: Prim("usize", z3.BitVecVal(it.n, 64)), 1: x}), It("enumerate", a=a2, n=it.n + 1)))
        return out
    if op in ("take_while", "filter", "map", "filter_map", "skip_while"):
        out = []
        for s2, x, a2 in it_next(ex, st, it.a, frame, depth, fuel - 1):
            if x is None:
                out.append((s2, None, It(op, a=a2, f=it.f, n=it.n)))
                continue
            if op == "take_while" and it.n == "done":
                out.append((s2, None, it))
                continue
            if op == "map":
                for s3, o in ex.call_value(s2, it.f, [x], "?", frame, depth):
                    out.append((s3, o.value if o.kind == "ret" else o, It(op, a=a2, f=it.f)))
                continue
            # predicates take a reference to the item
            c = f"it{next(ex.counter)}"
            s2.heap[c] = x
            arg = Ref("&T", c, ()) if op != "filter_map" else x
            for s3, o in ex.call_value(s2, it.f, [arg], "bool", frame, depth):
                if o.kind != "ret":
                    out.append((s3, o, It(op, a=a2, f=it.f)))
                    continue
                if op == "filter_map":
                    for s4, vn in ex.case_split(s3, o.value, "std::option::Option<T>"):
                        if vn == "Some":
                            out.append((s4, ex.enum_field(s4, o.value, "Some", 0, "T"), It(op, a=a2, f=it.f)))
                        else:
                            out += it_next(ex, s4, It(op, a=a2, f=it.f), frame, depth, fuel - 1)
                    continue
                for s4, keep in _bool_fork(ex, s3, ex.as_prim(o.value).e):
                    if op == "take_while":
                        if keep:
                            out.append((s4, x, It(op, a=a2, f=it.f)))
                        else:
                            out.append((s4, None, It(op, a=a2, f=it.f, n="done")))
                    elif op == "filter":
                        if keep:
                            out.append((s4, x, It(op, a=a2, f=it.f)))
                        else:
                            out += it_next(ex, s4, It(op, a=a2, f=it.f), frame, depth, fuel - 1)
        return out
    raise Unencodable(f"iterator op {op}")


def drain(ex, st, it, frame, depth, limit=8):
    """-> [(state, [items])]; iterators longer than `limit` end the path as outside the bound"""
    results = []

    def go(st, it, acc):
        if len(acc) > limit:
            st.notes.append("iterator longer than the bound")
            results.append((st, None))
            return
        for s2, x, it2 in it_next(ex, st, it, frame, depth):
            if isinstance(x, Outcome):
                results.append((s2, x))
            elif x is None:
                results.append((s2, acc))
            else:
                go(s2, it2, acc + [x])
    go(st, it, [])
    return results


# ----------------------------------------------------------------------------- models

def m_once(ex, st, callee, args, dest_ty, frame, depth):
    return [(st, Outcome("ret", It("once", ty=dest_ty, v=args[0])))]


def m_repeat_n(ex, st, callee, args, dest_ty, frame, depth):
    return [(st, Outcome("ret", It("repeat_n", ty=dest_ty, v=args[0], n=ex.as_prim(args[1]).e)))]


def m_adaptor(ex, st, callee, args, dest_ty, frame, depth):
    name = re.search(r"Iterator>::(\w+)", callee).group(1)
    a = from_any(ex, st, args[0])
    if name in ("chain", "zip"):
        b = from_any(ex, st, args[1], by_value=True)
        return [(st, Outcome("ret", It(name, ty=dest_ty, a=a, b=b)))]
    if name == "enumerate":
        return [(st, Outcome("ret", It("enumerate", ty=dest_ty, a=a, n=0)))]
    return [(st, Outcome("ret", It(name, ty=dest_ty, a=a, f=args[1])))]


def m_into_iter(ex, st, callee, args, dest_ty, frame, depth):
    by_value = not (isinstance(args[0], Ref) or (isinstance(args[0], Lazy) and is_ref(args[0].ty)))
    return [(st, Outcome("ret", from_any(ex, st, args[0], by_value=by_value)))]


def m_next(ex, st, callee, args, dest_ty, frame, depth):
    c, p = ex.deref_target(st, args[0])
    cur = ex.read(st, c, p)
    if isinstance(cur, Ref):
        c, p = cur.cell, cur.path
        cur = ex.read(st, c, p)
    it = from_any(ex, st, cur)
    out = []
    for s2, x, it2 in it_next(ex, st, it, frame, depth):
        ex.write(s2, c, p, it2)
        if isinstance(x, Outcome):
            out.append((s2, x))
        elif x is None:
            out.append((s2, Outcome("ret", Enum(dest_ty, bv64(0), {}))))
        else:
            out.append((s2, Outcome("ret", ex.mk_enum(dest_ty, "Some", [x]))))
    return out


def m_vec_splice(ex, st, callee, args, dest_ty, frame, depth):
    """Vec::splice(&mut v, start..end, iter): replaces the range by the iterator's items (range must be concrete)"""
    c, p = ex.deref_target(st, args[0])
    vec = ex.read(st, c, p)
    if not isinstance(vec, Seq):
        raise Unencodable(f"splice on {vec!r}")
    rng = args[1]
    lo = st.simp(ex.as_prim(ex.agg_field(st, rng, 0, "usize")).e)
    hi = st.simp(ex.as_prim(ex.agg_field(st, rng, 1, "usize")).e)
    if not (z3.is_bv_value(lo) and z3.is_bv_value(hi)):
        raise Unencodable("splice with a symbolic range")
    lo, hi = lo.as_long(), hi.as_long()
    out = []
    for s2, items in drain(ex, st, from_any(ex, st, args[2], by_value=True), frame, depth):
        if items is None:
            out.append((s2, Outcome("loopbound", msg="splice: iterator longer than the bound")))
            continue
        if isinstance(items, Outcome):
            out.append((s2, items))
            continue
        cells = []
        for x in items:
            cell = f"el{next(ex.counter)}"
            s2.heap[cell] = x
            cells.append(cell)
        ex.write(s2, c, p, Seq(vec.ty, vec.items[:lo] + tuple(cells) + vec.items[hi:], vec.kind))
        out.append((s2, Outcome("ret", UNIT)))     # the Splice guard is dropped immediately; its value is not used
    return out


def m_range_new(ex, st, callee, args, dest_ty, frame, depth):
    return [(st, Outcome("ret", Agg(dest_ty, {0: args[0], 1: args[1]})))]


ITER_MODELS = [
    (re.compile(r"^(std::iter::|core::iter::)?once::<"), m_once),
    (re.compile(r"^(std::iter::|core::iter::)?repeat_n::<"), m_repeat_n),
    (re.compile(r" as Iterator>::(chain|zip|take_while|filter|skip_while)::<"), m_adaptor),
    (re.compile(r"^<\[.*; N\] as IntoIterator>::into_iter$|^<\[.*; \d+\] as IntoIterator>::into_iter$|^<(Chain|Zip|TakeWhile|Once|RepeatN|std::iter::\w+|core::iter::\w+)<.*> as IntoIterator>::into_iter$"), m_into_iter),
    (re.compile(r"^<&(mut )?(Vec|BTreeMap|std::vec::Vec|std::collections::BTreeMap)<.*> as IntoIterator>::into_iter$"), m_into_iter),
    (re.compile(r"^<(Chain|Zip|TakeWhile|Once|RepeatN|Filter|std::iter::\w+|core::iter::\w+|std::array::IntoIter)<.*> as Iterator>::next$"), m_next),
    (re.compile(r"^<(std::slice::Iter|core::slice::Iter|std::collections::btree_map::Iter|btree_map::Iter)<.*> as Iterator>::next$"), m_next),
    (re.compile(r"^(std::vec::)?Vec::<.*>::splice::<"), m_vec_splice),
]
