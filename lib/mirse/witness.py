"""Witness builder: turns a refuted node lemma (node, path descriptor, outcome shape per child) into a
concrete VRL program + event + expectation, to be run natively by engine R (the real compiler, runtime
and stdlib).  The expectation is derived from the *property statement* (reference semantics below),
never from the model of the code."""
import re

OPSYM = {"Err": "??", "Or": "||", "And": "&&", "Mul": "*", "Div": "/", "Add": "+", "Sub": "-", "Ne": "!=", "Eq": "==",
         "Ge": ">=", "Gt": ">", "Le": "<=", "Lt": "<", "Merge": "|", "arith/cmp": "+"}

RETURN_VALUE = 77


def child_expr(tag, shape, kind, force_fallible=False):
    """shape: ('Ok', 'true'|'false'|'null'|'val') | ('Err', 'Error'|'Abort'|'Return')
       returns (vrl expression, event fields, expected Ok value as python or None, is_fallible)
       Only an Err(Error) outcome (or an explicit request) makes the child fallible for the type checker."""
    ev = {}
    esc = ""
    if shape[0] == "Err" and shape[1] in ("Abort", "Return"):
        ev[f"x_{tag}"] = True
        esc = f"if .x_{tag} == true {{ abort }}; " if shape[1] == "Abort" else f"if .x_{tag} == true {{ return {RETURN_VALUE} }}; "
    fallible = force_fallible or shape == ("Err", "Error")
    if fallible:
        ev[f"d_{tag}"] = 0 if shape == ("Err", "Error") else 1
    okval = None
    num = f"(1 / .d_{tag})" if fallible else "1.0"
    if kind == "bool":
        want = shape[1] if shape[0] == "Ok" else "true"
        if want == "null":
            tail = f"{{ {num}; null }}"
            okval = None
        else:
            cmpv = "1.0" if want in ("true", "val") else "2.0"
            tail = f"({num} == {cmpv})"
            okval = (want in ("true", "val"))
    elif kind == "object":
        tail = f'{{ "k_{tag}": {num} }}'
    else:
        tail = num
        okval = 1.0
    return f"{{ .ran_{tag} = true; {esc}{tail} }}", ev, okval, fallible


class Witness:
    def __init__(self, source, event, order, okvals):
        self.source, self.event, self.order, self.okvals = source, event, order, okvals


def build(node, desc, shapes):
    """shapes: dict child-name -> shape for the children that are evaluated; others default to Ok.
    returns Witness or None when no template exists for the node"""
    d = desc.strip("[]")
    ev, okvals = {}, {}

    fall = {}

    def C(tag, kind="float", force=False):
        sh = shapes.get(tag, ("Ok", "val"))
        e, f, ok, fl = child_expr(tag, sh, kind, force)
        ev.update(f)
        okvals[tag] = ok
        fall[tag] = fl
        return e
    if node == "Op":
        sym = OPSYM.get(d)
        if sym is None:
            return None
        kind = "bool" if d in ("Or", "And") else ("object" if d == "Merge" else "float")
        src = f"{C('lhs', kind, force=(d == 'Err'))} {sym} {C('rhs', kind)}"
        order = ["lhs", "rhs"]
        if d == "Err":
            fall["lhs"] = False     # consumed by `??`
    elif node == "AssignVariant":
        if d == "Single":
            src = f".stored = {C('expr')}"
        else:
            src = f".ok, .err = {C('expr', force=True)}"
            fall["expr"] = False    # consumed by the infallible assignment
        order = ["expr"]
    elif node == "IfStatement":
        src = f"if {C('predicate', 'bool')} {{ {C('if_block')} }} else {{ {C('else_block')} }}"
        order = ["predicate", "if_block", "else_block"]
    elif node.startswith("Block"):
        n = int(re.search(r"n=(\d+)", node).group(1))
        order = [f"e{i}" for i in range(n)]
        src = "{ " + "; ".join(C(t) for t in order) + " }"
    elif node.startswith("Array"):
        n = int(re.search(r"n=(\d+)", node).group(1))
        order = [f"e{i}" for i in range(n)]
        src = "[" + ", ".join(C(t) for t in order) + "]"
    elif node.startswith("Object"):
        n = int(re.search(r"n=(\d+)", node).group(1))
        order = [f"e{i}" for i in range(n)]
        src = "{ " + ", ".join(f'"k{i}": {C(t)}' for i, t in enumerate(order)) + " }"
    elif node in ("Not", "Unary"):
        src = f"!{C('inner', 'bool')}"
        order = ["inner"]
    elif node == "Return":
        src = f"return {C('expr')}"
        order = ["expr"]
    elif node in ("Group", "Container"):
        src = f"({C('inner')})"
        order = ["inner"]
    elif node == "Predicate":
        src = f"if {C('inner', 'bool')} {{ 1 }} else {{ 2 }}"
        order = ["inner"]
    elif node in ("Assignment",):
        src = f".stored = {C('inner')}"
        order = ["inner"]
    elif node in ("Expr", "Program"):
        src = C("inner")
        order = ["inner"]
    elif node in ("FunctionCall", "FunctionExpressionAdapter", "FunctionArgument"):
        src = f"to_string({C('expr')})"
        order = ["expr"]
    elif node == "Query":
        src = f"[{C('inner')}][0]"
        order = ["inner"]
    else:
        return None
    # a statement that can fail must be handled for the compiler to accept the program: capture the error
    # in .werr (an ordinary error then shows up as a string in .werr instead of ending the program)
    wrapped = any(fall.values())
    if wrapped and node == "AssignVariant":
        return None
    if wrapped and node == "Return":
        return None
    source = (f".wres, .werr = ({src})" if wrapped else src) + "\n.after = true\n"
    w = Witness(source, ev, order, okvals)
    w.wrapped = wrapped
    return w


def normalize_child(node, label):
    """map lemma child labels to witness tags"""
    m = re.match(r"^self\.inner\[(\d+)\]$", label)
    if m:
        return f"e{m.group(1)}"
    if node == "AssignVariant":
        return "expr"
    if label in ("lhs", "rhs", "predicate", "if_block", "else_block", "expr"):
        return label
    if node in ("FunctionCall", "FunctionExpressionAdapter", "FunctionArgument", "Return"):
        return "expr"
    return "inner"


def prefix_shapes(node, desc, child):
    """shapes of the children evaluated before `child` so that evaluation reaches it"""
    d = desc.strip("[]")
    if node == "Op" and child == "rhs":
        return {"lhs": {"Or": ("Ok", "false"), "And": ("Ok", "true"), "Err": ("Err", "Error")}.get(d, ("Ok", "val"))}
    if node == "IfStatement":
        if child == "if_block":
            return {"predicate": ("Ok", "true")}
        if child == "else_block":
            return {"predicate": ("Ok", "false")}
    return {}


def expect_propagation(w, child, X):
    """C06/C07 expectation: the run ends at `child` with abort / with the returned value"""
    i = w.order.index(child)
    later = w.order[i + 1:]
    exp = {"outcome": "abort"} if X == "Abort" else {"outcome": "ok", "value": {"Integer": str(RETURN_VALUE)}}
    exp["event_lacks"] = [f"ran_{t}" for t in later] + ["after"]
    exp["event_has"] = [f"ran_{child}"]
    return exp


def mismatch(obs, exp):
    """list of human-readable differences between the native observation and the expectation"""
    out = []
    if obs.get("outcome") == "panic":
        return [f"panic during {obs.get('phase', 'run')}: {obs.get('message')} @ {obs.get('location', '')}"]
    if not obs.get("compiled", False):
        return None   # witness program rejected by the compiler: not a reproduction
    evo0 = ((obs.get("event") or {}).get("Object") or {})
    if exp.get("outcome") == "error" and exp.get("wrapped"):
        werr = evo0.get("werr")
        if not (obs.get("outcome") == "ok" and isinstance(werr, dict) and ("Bytes" in werr)):
            out.append(f"expected an ordinary (catchable) error captured in .werr, got outcome {obs.get('outcome')!r} .werr={werr!r}")
    elif "outcome" in exp and obs.get("outcome") != exp["outcome"]:
        out.append(f"outcome {obs.get('outcome')!r} (message {obs.get('message')!r}), expected {exp['outcome']!r}")
    if "value" in exp and obs.get("outcome") == "ok":
        ov = dict(obs.get("value") or {}) if isinstance(obs.get("value"), dict) else obs.get("value")
        if isinstance(ov, dict):
            ov.pop("approx", None)
        if ov != exp["value"]:
            out.append(f"value {ov!r}, expected {exp['value']!r}")
    if exp.get("accepted_never_fails") and obs.get("outcome") in ("error", "abort"):
        out.append(f"the compiler accepted the program (no `!`, no abort) but the run ended with {obs.get('outcome')}: {obs.get('message')}")
    if exp.get("types_sound") and obs.get("type_errors"):
        out.append("type unsound: " + "; ".join(obs["type_errors"]))
    evo = ((obs.get("event") or {}).get("Object") or {})
    for k in exp.get("event_lacks", []):
        if k in evo:
            out.append(f"event has .{k} (a later expression ran)")
    for k in exp.get("event_has", []):
        if k not in evo:
            out.append(f"event lacks .{k}")
    if "seen_len" in exp:
        seen = (evo.get("seen") or {}).get("Array")
        if seen is not None and len(seen) != exp["seen_len"]:
            out.append(f"the closure ran {len(seen)} time(s) ({seen}), expected {exp['seen_len']}: iterations continued after the abort")
    for k, val in exp.get("if_compiled_event_eq", {}).items():
        got = evo.get(k)
        if got != val:
            out.append(f"the program was accepted and the read-only location .{k} changed: {got!r} (was {val!r})")
    for k, val in exp.get("event_eq", {}).items():
        got = evo.get(k)
        if isinstance(got, dict):
            got = {a: b for a, b in got.items() if a != "approx"}
        if got != val:
            out.append(f"event .{k} = {got!r}, expected {val!r}")
    return out


# ----------------------------------------------------------------------------- reference semantics for C08 / C09 roles

def _val(okval):
    if okval is True or okval is False:
        return {"Boolean": okval}
    if okval is None:
        return "Null"
    return None   # floats: not compared


def expect_semantics(node, desc, w, shapes):
    """expected observation of the witness according to the documented definitions"""
    d = desc.strip("[]")

    def res(tag):
        return shapes.get(tag, ("Ok", "val"))

    def finish(tag_chain):
        """evaluate children in order; the last one determines the outcome"""
        last = tag_chain[-1]
        sh = res(last)
        ran = tag_chain
        if sh[0] == "Ok":
            exp = {"outcome": "ok"}
            v = _val(w.okvals.get(last))
            if v is not None:
                exp["value"] = v
        elif sh[1] == "Abort":
            exp = {"outcome": "abort"}
        elif sh[1] == "Return":
            exp = {"outcome": "ok", "value": {"Integer": str(RETURN_VALUE)}}
        else:
            exp = {"outcome": "error"}
        exp["event_has"] = [f"ran_{t}" for t in ran]
        exp["event_lacks"] = [f"ran_{t}" for t in w.order if t not in ran]
        exp["wrapped"] = getattr(w, "wrapped", False)
        if exp["outcome"] == "ok" and "value" in exp and exp["value"] == {"Integer": str(RETURN_VALUE)}:
            exp["event_lacks"].append("after")
        elif exp["outcome"] == "abort":
            exp["event_lacks"].append("after")
        elif exp["outcome"] == "error" and not exp["wrapped"]:
            exp["event_lacks"].append("after")
        if exp["wrapped"] and exp["outcome"] == "ok" and exp.get("value") != {"Integer": str(RETURN_VALUE)}:
            exp.pop("value", None)      # the program's value is that of `.after = true`
        return exp
    if node == "Op":
        L = res("lhs")
        if d == "Err":
            return finish(["lhs"]) if not (L == ("Err", "Error")) else finish(["lhs", "rhs"])
        if d == "Or":
            if L[0] == "Ok" and L[1] in ("false", "null"):
                return finish(["lhs", "rhs"])
            return finish(["lhs"])
        if d == "And":
            if L[0] == "Ok" and L[1] in ("false", "null"):
                e = finish(["lhs"])
                e["value"] = {"Boolean": False}
                return e
            if L[0] == "Ok":
                e = finish(["lhs", "rhs"])
                R = res("rhs")
                if R[0] == "Ok":
                    e["value"] = {"Boolean": R[1] in ("true", "val")}
                return e
            return finish(["lhs"])
        if L[0] != "Ok":
            return finish(["lhs"])
        e = finish(["lhs", "rhs"])
        e.pop("value", None)
        return e
    if node == "IfStatement":
        P = res("predicate")
        if P[0] != "Ok":
            return finish(["predicate"])
        if P[1] in ("true", "val"):
            return finish(["predicate", "if_block"])
        if P[1] == "false":
            return finish(["predicate", "else_block"])
        return None
    if node == "AssignVariant":
        E = res("expr")
        e = finish(["expr"])
        if d == "Infallible":
            if E[0] == "Ok":
                e["event_eq"] = {"err": "Null"}
                e["event_has"] = e.get("event_has", []) + ["ok", "after"]
            elif E[1] == "Error":
                e = {"outcome": "ok", "event_has": ["ran_expr", "ok", "err", "after"], "event_lacks": [], "event_eq": {"ok": {"Float": "0x0000000000000000"}}}
                # default of a float-typed ok target is 0.0; checked loosely (ok exists); err must be a string
        elif d == "Single" and E[0] == "Ok":
            e["event_has"] = e.get("event_has", []) + ["stored", "after"]
            e.pop("value", None)
        return e
    return None
