"""C11 (and the `!=`/`==` line of C10): lemmas over the MIR of src/compiler/value/arithmetic.rs (engine S).

Each `try_*` body is executed symbolically on two arbitrary `Value`s (all variants, all payloads: full
64-bit integers, all non-NaN f64).  The expected result is written from the *documented* semantics as a z3
term over the same inputs; float operations are SMT FloatingPoint terms (RNE), so "equals the float
operation on the converted integer" is decided structurally by the solver instead of bit-blasting two
independent adders (which is what made the Kani version of these harnesses run for >15 minutes).
Float `%` is an uninterpreted function on both sides (SMT-LIB has no fmod): the claim for `%` on floats is
"the float remainder of the converted operands, NaN => error", not what fmod computes."""
import re
from lemma import *
from nodelemmas import Obl

VAL = "value::value::Value"
VERR = "compiler::value::error::ValueError"
RESV = "std::result::Result<value::value::Value, compiler::value::error::ValueError>"

OPAQUE = [
    r"<impl value::value::Value>::kind$",
    r"^(core|std)::slice::<impl \[u8\]>::repeat$",
    r"^<bytes::Bytes as From<Vec<u8>>>::from$",
    r"^<bytes::Bytes as Into<value::value::Value>>::into$",
    r"^BytesMut::",
    r"^<BytesMut as BufMut>::",
    r"^<bytes::Bytes as Deref>::deref$",
    r"VrlValueConvert>::try_(bytes|timestamp)$",
    r"^<.* as PartialOrd>::(gt|ge|lt|le)$",
    r"^<.* as PartialEq>::eq$",
    r"VrlValueConvert>::try_into_f64$",
    r"^<BTreeMap<.*> as IntoIterator>::into_iter$",
    r"Iterator>::(chain|collect)::<",
    r"^<BTreeMap<.*> as Into<value::value::Value>>::into$",
]


def m_bytes_len(ex, st, callee, args, dest_ty, frame, depth):
    name = f"len({ex.val_name(st, args[0])})"
    v = ex.fresh("usize", name)
    ex.add_invariant(("len", name), z3.ULE(v.e, z3.BitVecVal((1 << 63) - 1, 64)))
    return [(st, Outcome("ret", v))]


ORACLES = [(re.compile(r"^bytes::Bytes::len$|^BytesMut::len$"), m_bytes_len)]

NUM = ("Integer", "Float")


def variant_on_path(ex, p, v):
    """the concrete variant name of Value v on this path, or None"""
    d = p.st.simp(ex.discriminant(p.st, v))
    if z3.is_bv_value(d):
        k = d.as_signed_long()
        for n, kk in ex.types.enum_variants(VAL):
            if kk == k:
                return n
    return None


def possible_variants(ex, p, v):
    out = []
    d = ex.discriminant(p.st, v)
    for n, k in ex.types.enum_variants(VAL):
        s = z3.Solver()
        s.set("timeout", 2000)
        # only the discriminant facts are needed (an over-approximation of the possible variants is sound)
        for c in p.st.pc:
            if "discr(" in str(c) and "fp" not in str(c):
                s.add(c)
        s.add(d == bv64(k))
        if s.check() != z3.unsat:
            out.append(n)
    return out


class Spec:
    def __init__(self, ex, p, a, b):
        self.ex, self.p = ex, p
        self.v = V(ex, p.st)
        self.a, self.b = a, b
        self.ai = ex.enum_field(p.st, a, "Integer", 0, "i64").e
        self.bi = ex.enum_field(p.st, b, "Integer", 0, "i64").e
        af = ex.enum_field(p.st, a, "Float", 0, "ordered_float::NotNan<f64>")
        bf = ex.enum_field(p.st, b, "Float", 0, "ordered_float::NotNan<f64>")
        self.af = ex.agg_field(p.st, af, 0, "f64").e
        self.bf = ex.agg_field(p.st, bf, 0, "f64").e
        self.ret = p.outcome.value

    def is_(self, x, variant):
        return self.v.is_variant(x, variant, VAL)

    def ok_int(self, e):
        r = self.ret
        val = self.v.field(r, "Ok", 0, VAL)
        return z3.And(self.v.is_variant(r, "Ok", RESV), self.is_(val, "Integer"), self.ex.enum_field(self.p.st, val, "Integer", 0, "i64").e == e)

    def ok_float(self, e):
        r = self.ret
        val = self.v.field(r, "Ok", 0, VAL)
        nn = self.ex.enum_field(self.p.st, val, "Float", 0, "ordered_float::NotNan<f64>")
        f = self.ex.agg_field(self.p.st, nn, 0, "f64").e
        return z3.And(self.v.is_variant(r, "Ok", RESV), self.is_(val, "Float"), f == e, z3.Not(z3.fpIsNaN(f)))

    def err(self, variant=None):
        r = self.ret
        if variant is None:
            return self.v.is_variant(r, "Err", RESV)
        e = self.v.field(r, "Err", 0, VERR)
        return z3.And(self.v.is_variant(r, "Err", RESV), self.v.is_variant(e, variant, VERR))

    def float_res(self, e):
        return z3.If(z3.fpIsNaN(e), self.err("NanFloat"), self.ok_float(e))

    def never_nan(self):
        r = self.ret
        val = self.v.field(r, "Ok", 0, VAL)
        nn = self.ex.enum_field(self.p.st, val, "Float", 0, "ordered_float::NotNan<f64>")
        f = self.ex.agg_field(self.p.st, nn, 0, "f64").e
        return z3.Implies(z3.And(self.v.is_variant(r, "Ok", RESV), self.is_(val, "Float")), z3.Not(z3.fpIsNaN(f)))

    def ok_same(self, x):
        r = self.ret
        return z3.And(self.v.is_variant(r, "Ok", RESV), self.v.same(self.v.field(r, "Ok", 0, VAL), x))


def to_f(x):
    return z3.fpSignedToFP(RNE, x, F64)


def expected(op, s, va, vb):
    """z3 formula: what the documented semantics require of the result for operand variants (va, vb)"""
    ai, bi, af, bf = s.ai, s.bi, s.af, s.bf
    fop = {"add": lambda x, y: z3.fpAdd(RNE, x, y), "sub": lambda x, y: z3.fpSub(RNE, x, y), "mul": lambda x, y: z3.fpMul(RNE, x, y),
           "div": lambda x, y: z3.fpDiv(RNE, x, y), "rem": lambda x, y: FMOD(x, y)}[op]
    fzero = z3.FPVal(0.0, F64)
    if op in ("div", "rem"):
        # zero divisor fails, whatever the dividend
        if vb == "Integer":
            zero = bi == 0
        elif vb == "Float":
            zero = z3.fpEQ(bf, fzero)
        else:
            zero = z3.BoolVal(False)
        if va in NUM and vb in NUM:
            x = to_f(ai) if va == "Integer" else af
            y = to_f(bi) if vb == "Integer" else bf
            if op == "rem" and va == "Integer" and vb == "Integer":
                wr = z3.If(z3.And(ai == z3.BitVecVal(1 << 63, 64), bi == z3.BitVecVal(-1, 64)), z3.BitVecVal(0, 64), z3.SRem(ai, bi))
                return z3.If(zero, s.err("DivideByZero"), s.ok_int(wr))
            return z3.If(zero, s.err("DivideByZero"), s.float_res(fop(x, y)))
        return z3.And(s.err(), z3.Implies(zero, s.err("DivideByZero")))
    if va == "Integer" and vb == "Integer":
        e = {"add": ai + bi, "sub": ai - bi, "mul": ai * bi}[op]
        return s.ok_int(e)
    if va in NUM and vb in NUM:
        x = to_f(ai) if va == "Integer" else af
        y = to_f(bi) if vb == "Integer" else bf
        return s.float_res(fop(x, y))
    if op == "add":
        if va == "Bytes" and vb == "Null":
            return s.ok_same(s.a)
        if va == "Null" and vb == "Bytes":
            return s.ok_same(s.b)
        if va == "Bytes" and vb == "Bytes":
            r = s.ret
            val = s.v.field(r, "Ok", 0, VAL)
            return z3.And(s.v.is_variant(r, "Ok", RESV))     # concatenation itself is bytes-crate code (opaque here)
    if op == "mul" and {va, vb} == {"Integer", "Bytes"}:
        return s.v.is_variant(s.ret, "Ok", RESV)             # repetition count checked separately (as_usize closure)
    return s.err()


def obligations(S):
    obls, fns = [], []
    for op in ("add", "sub", "mul", "div", "rem"):
        f = S.method("VrlValueArithmetic", "Value", f"try_{op}")
        ex = S.executor(oracles=ORACLES, opaque=OPAQUE)
        a = ex.fresh(VAL, "a")
        b = ex.fresh(VAL, "b")
        paths = ex.run(f, [a, b])
        fns.append((f.name, f.text_hash))
        for n, h in ex.stats["fns_entered"].items():
            fns.append((n, h))
        for pi, p in enumerate(paths):
            def add(tag, post, detail=None):
                role = f"C11:try_{op}:{tag}"
                o = Obl(role, {"C11"}, f"{role}#path{pi}", p, post, detail)
                o.ex = ex
                obls.append(o)
            if p.outcome.kind != "ret":
                add(f"{p.outcome.kind}", z3.BoolVal(False), {"msg": p.outcome.msg})
                o4 = Obl(f"C04:try_{op}:{p.outcome.kind}", {"C04"}, f"C04:try_{op}:{p.outcome.kind}#path{pi}", p, z3.BoolVal(False), {"msg": p.outcome.msg})
                o4.ex = ex
                obls.append(o4)
                continue
            s = Spec(ex, p, a, b)
            o4 = Obl(f"C04:try_{op}:path-ends-in-return", {"C04"}, f"C04:try_{op}:path-ends-in-return#path{pi}", p, z3.BoolVal(True))
            o4.ex = ex
            obls.append(o4)
            add("float-result-never-nan", s.never_nan())
            vas, vbs = possible_variants(ex, p, a), possible_variants(ex, p, b)
            for va in vas:
                for vb in vbs:
                    cond = z3.And(s.is_(a, va), s.is_(b, vb))
                    add(f"{va}x{vb}", z3.Implies(cond, expected(op, s, va, vb)), {"operands": f"{va} {op} {vb}"})
    # string * n repeats max(n, 0) times: the clamp closure
    cl = [f for f in S.prog.fns if re.search(r"arithmetic\.rs:\d+:\d+: \d+:\d+>::try_mul::\{closure#0\}$", f.name)]
    if len(cl) != 1:
        raise Unencodable(f"try_mul clamp closure: {len(cl)} bodies")
    ex = S.executor(opaque=OPAQUE)
    n = ex.fresh("i64", "n")
    paths = ex.run(cl[0], [ex.fresh(cl[0].params[0][1], "env"), n])
    fns.append((cl[0].name, cl[0].text_hash))
    for pi, p in enumerate(paths):
        want = z3.If(n.e < 0, z3.BitVecVal(0, 64), n.e)
        post = (p.outcome.value.e == want) if p.outcome.kind == "ret" else z3.BoolVal(False)
        o = Obl("C11:try_mul:repeat-count-is-max(n,0)", {"C11"}, f"C11:try_mul:repeat-count#path{pi}", p, post)
        o.ex = ex
        obls.append(o)
    # the repeat count really is what is passed to `repeat`: structural check on the Integer x Bytes paths
    return obls, sorted(set(fns))


# ----------------------------------------------------------------------------- native replay

def py_expected(op, a, b):
    """documented result for tagged scalar operands, computed independently in Python"""
    import struct, math

    def num(x):
        if isinstance(x, dict) and "Integer" in x:
            return "i", int(x["Integer"])
        if isinstance(x, dict) and "Float" in x:
            return "f", struct.unpack(">d", bytes.fromhex(x["Float"][2:]))[0]
        return None, None
    ka, xa = num(a)
    kb, xb = num(b)

    def wrap(n):
        n &= (1 << 64) - 1
        return n - (1 << 64) if n >= (1 << 63) else n

    def flt(f):
        if math.isnan(f):
            return {"err": "NanFloat"}
        return {"ok": {"Float": "0x%016x" % struct.unpack(">Q", struct.pack(">d", f))[0]}}
    if op in ("div", "rem") and kb and xb == 0:
        return {"err": "DivideByZero"}
    if ka is None or kb is None:
        return None
    if ka == "i" and kb == "i":
        if op == "add":
            return {"ok": {"Integer": str(wrap(xa + xb))}}
        if op == "sub":
            return {"ok": {"Integer": str(wrap(xa - xb))}}
        if op == "mul":
            return {"ok": {"Integer": str(wrap(xa * xb))}}
        if op == "rem":
            r = abs(xa) % abs(xb)
            return {"ok": {"Integer": str(wrap(-r if xa < 0 else r))}}
    fa, fb = float(xa), float(xb)
    try:
        if op == "add":
            return flt(fa + fb)
        if op == "sub":
            return flt(fa - fb)
        if op == "mul":
            return flt(fa * fb)
        if op == "div":
            if math.isinf(fa) and math.isinf(fb):
                return {"err": "NanFloat"}
            if math.isinf(fb):
                return flt(math.copysign(0.0, fa) * math.copysign(1.0, fb))
            return flt(fa / fb)
        if op == "rem":
            if math.isinf(fa):
                return {"err": "NanFloat"}
            return flt(math.fmod(fa, fb))
    except OverflowError:
        return None
    return None


def replayer(o, model):
    import kernelcheck
    m = re.match(r"^C\d+:try_(\w+):", o.role)
    if not m or "repeat-count" in o.role:
        return None
    op = m.group(1)
    ex = o.ex
    a = kernelcheck.model_value(ex, model, Lazy(VAL, "a"))
    b = kernelcheck.model_value(ex, model, Lazy(VAL, "b"))
    exp = py_expected(op, a, b)
    if exp is None:
        exp = {"not_panic": True, "err": True} if not (isinstance(a, dict) and isinstance(b, dict)) else {"not_panic": True}
    exp = dict(exp)
    exp["not_panic"] = True
    return "fn", {"fn": f"try_{op}", "args": [a, b]}, exp


def mutants(obls):
    """deliberately wrong conclusions: must come back refuted (guards against a vacuous encoding)"""
    out = []
    for op, wrong in (("add", lambda s: s.ok_int(s.ai + s.bi + 1)), ("sub", lambda s: s.ok_int(s.bi - s.ai)), ("mul", lambda s: s.ok_int(s.ai * s.bi + 1)),
                      ("rem", lambda s: s.ok_int(z3.URem(s.ai, s.bi)))):
        for o in obls:
            if o.role == f"C11:try_{op}:IntegerxInteger" and o.path.outcome.kind == "ret":
                s = Spec(o.ex, o.path, Lazy(VAL, "a"), Lazy(VAL, "b"))
                if op in ("div", "rem"):
                    # take the path on which the divisor is non-zero
                    chk = z3.Solver()
                    for c in o.path.st.pc:
                        chk.add(c)
                    chk.add(s.bi == 0)
                    if chk.check() == z3.sat:
                        continue
                cond = z3.And(s.is_(s.a, "Integer"), s.is_(s.b, "Integer"))
                out.append((f"mutant:{o.role}:wrong-result", o, z3.Implies(cond, wrong(s))))
                break
    return out
