"""C12 — constants carried by variables: a one-step simulation lemma for assignments.

The compiler remembers, per local variable, an optional constant (`Details.value` in `LocalEnv`); `Variable::
resolve_constant` hands it out and decisions are taken from it (infallible division, short-circuit typing).  The
invariant that makes this sound relates the two stores:

    R:   for every variable x,   LocalEnv[x].value = Some(c)   ==>   RuntimeState[x] = c

The lemma is R's preservation by one assignment: from the MIR of the compile-time half
`assignment::Target::insert_type_def(target, &mut type_state, type_def, constant)` and of the runtime half
`assignment::Target::insert(target, value, ctx)`, executed on the same arbitrary target, with both stores modelled as
maps and under the hypothesis for the assigned expression (constant = Some(c) ==> value = c):

    afterwards, the constant recorded for the assigned variable (if any) equals the value the runtime stored.

Path assignments (`x.a = 5`) are the interesting case: the runtime stores `insert(old x, .a, 5)`, so recording the
constant 5 for `x` breaks R."""
import re
from lemma import *
from nodelemmas import Obl
import runnerlemmas as RL

VAL = "value::value::Value"
RES = "std::result::Result<value::value::Value, compiler::expression_error::ExpressionError>"
OPT_VAL = "std::option::Option<value::value::Value>"


def _key(ex, st, ident):
    return RL._key(ex, st, ident)


# ---- compile-time store: LocalEnv as a ghost map ident -> (type_def name, constant Option<Value>)

def m_local_variable(ex, st, callee, args, dest_ty, frame, depth):
    """LocalEnv::variable(ident) -> Option<&Details>; the details' constant is related to the runtime store by R"""
    key = _key(ex, st, args[1])
    out = []
    s_none = st.fork()
    out.append((s_none, Outcome("ret", Enum(dest_ty, bv64(0), {}))))
    cell = f"details[{key}]"
    if cell not in st.heap:
        rec = ex.fresh(OPT_VAL, f"local0[{key}].value")
        st.heap[cell] = Agg("compiler::type_def::Details", {0: ex.fresh("compiler::type_def::TypeDef", f"local0[{key}].type_def"), 1: rec})
        vv0 = V(ex, st)
        rt = RL.vars_lookup(ex, st, key)
        ex.add_invariant(("R", key), z3.Implies(vv0.is_variant(rec, "Some", OPT_VAL),
                                                z3.And(vv0.is_variant(rt, "Some", OPT_VAL), vv0.same(vv0.field(rt, "Some", 0, VAL), vv0.field(rec, "Some", 0, VAL)))))
    out.append((st, Outcome("ret", ex.mk_enum(dest_ty, "Some", [Ref("&compiler::type_def::Details", cell, ())]))))
    return out


def m_local_insert(ex, st, callee, args, dest_ty, frame, depth):
    key = _key(ex, st, args[1])
    details = args[2]
    const = ex.agg_field(st, details, 1, OPT_VAL)      # Details { type_def, value }
    st.ghost.setdefault("local", []).append((key, const))
    return [(st, Outcome("ret", UNIT))]


# ---- runtime store: reuse the RuntimeState model of runnerlemmas, plus in-place path insertion

def m_value_insert(ex, st, callee, args, dest_ty, frame, depth):
    """Value::insert(&mut stored, path, value): the stored value becomes insert(old, path, value)"""
    c, p = ex.deref_target(st, args[0])
    old = ex.read(st, c, p)
    new = ex.fresh(VAL, f"insert({ex.val_name(st, old)},{ex.val_name(st, args[1])},{ex.val_name(st, args[2])})")
    ex.write(st, c, p, new)
    key = st.ghost.get("cell_of_var", {}).get(c)
    if key is not None:
        RL.vars_set(st, key, ex.mk_enum(OPT_VAL, "Some", [new]))
    return [(st, Outcome("ret", ex.fresh(dest_ty, f"prev{next(ex.counter)}")))]


def m_variable_mut(ex, st, callee, args, dest_ty, frame, depth):
    key = _key(ex, st, args[1])
    cur = RL.vars_lookup(ex, st, key)
    out = []
    for s2, vn in ex.case_split(st, cur, OPT_VAL):
        if vn == "Some":
            c = f"var{next(ex.counter)}"
            s2.heap[c] = ex.enum_field(s2, cur, "Some", 0, VAL)
            s2.ghost.setdefault("cell_of_var", {})[c] = key
            out.append((s2, Outcome("ret", ex.mk_enum(dest_ty, "Some", [Ref("&mut value::value::Value", c, ())]))))
        else:
            out.append((s2, Outcome("ret", Enum(dest_ty, bv64(0), {}))))
    return out


ORACLES = [
    (re.compile(r"^(state::)?LocalEnv::variable$"), m_local_variable),
    (re.compile(r"^(state::)?LocalEnv::insert_variable$"), m_local_insert),
    (re.compile(r"^(state::)?RuntimeState::variable_mut$"), m_variable_mut),
    (re.compile(r"^(state::)?RuntimeState::insert_variable$"), RL.m_insert_variable),
    (re.compile(r"^context::Context::<'_>::state_mut$"), RL.m_state_mut),
    (re.compile(r"^value::value::Value::insert::<|<impl value::value::Value>::insert::<"), m_value_insert),
]

OPAQUE = [r"VrlValueArithmetic>::eq_lossy$", r"^<value::value::Value as PartialEq>::eq$", r"^value::value::Value::(remove|get)::<|<impl value::value::Value>::(remove|get)::<", r"^<value::value::Value as Clone>::clone$", r"^TypeDef::\w+(::<.*>)?$", r"^<TypeDef as Clone>::clone$", r"^OwnedValuePath::is_root$",
          r"^value::value::Value::at_path::<|<impl value::value::Value>::at_path::<", r"^ExternalEnv::\w+$", r"^(state::)?ExternalEnv::\w+$",
          r"^context::Context::<'_>::target_mut$", r"^<dyn (target::)?Target as (target::)?Target>::target_insert$", r"<impl value::kind::Kind>::\w+(::<.*>)?$", r"^value::kind::Kind::\w+(::<.*>)?$", r"Kind::insert::<",
          ]


def obligations(S):
    obls, fns = [], []
    ins_td = [x for x in S.prog.find(None, "Target", "insert_type_def") if "assignment.rs" in x.name]
    ins_rt = [x for x in S.prog.find(None, "Target", "insert") if "assignment.rs" in x.name]
    if len(ins_td) != 1 or len(ins_rt) != 1:
        raise Unencodable(f"assignment::Target::insert_type_def / insert: {len(ins_td)} / {len(ins_rt)} bodies")
    f_td, f_rt = ins_td[0], ins_rt[0]
    fns += [(f_td.name, f_td.text_hash), (f_rt.name, f_rt.text_hash)]
    tv = S.types.enum_variants("assignment::Target", "compiler::expression::assignment")
    if [n for n, _ in tv] != ["Noop", "Internal", "External"]:
        raise Unencodable(f"assignment::Target variants changed: {tv}")
    ex = S.executor(oracles=ORACLES, opaque=OPAQUE)
    target = ex.fresh("&assignment::Target", "self")
    v = ex.fresh(VAL, "v")
    # hypothesis for the assigned expression: its constant, if any, is its runtime value
    const = Enum(OPT_VAL, z3.BitVec("discr(const)", 64), {"Some": {0: v}})
    ex.add_invariant(("const-discr",), z3.Or(const.discr == bv64(0), const.discr == bv64(1)))
    st0 = State()
    paths1 = ex.run(f_td, [target, ex.fresh("&mut TypeState", "tstate"), ex.fresh("compiler::type_def::TypeDef", "new_type_def"), const], st0)
    n_internal = 0
    for pi, p1 in enumerate(paths1):
        if p1.outcome.kind != "ret":
            o = Obl(f"C04:assignment::Target::insert_type_def:{p1.outcome.kind}", {"C04"}, f"C04:insert_type_def#path{pi}", p1, z3.BoolVal(False), {"msg": p1.outcome.msg})
            o.ex = ex
            obls.append(o)
            continue
        paths2 = ex.run(f_rt, [target, v, ex.fresh("&mut context::Context<'_>", "ctx")], p1.st.fork())
        for pj, p2 in enumerate(paths2):
            if p2.outcome.kind != "ret":
                continue
            d = p2.st.simp(ex.discr_of("self*", "assignment::Target"))
            if not (z3.is_bv_value(d) and d.as_long() == 1):
                continue            # Noop / External: no local variable is involved
            n_internal += 1
            vv = V(ex, p2.st)
            key = "self*.Internal.0"
            recorded = [c for k, c in p2.st.ghost.get("local", []) if k == key]
            runtime = RL.vars_lookup(ex, p2.st, key)
            if not recorded:
                post = z3.BoolVal(False)
                detail = {"problem": "no LocalEnv::insert_variable for the assigned variable"}
            else:
                cst = recorded[-1]
                has_const = vv.is_variant(cst, "Some", OPT_VAL)
                cval = vv.field(cst, "Some", 0, VAL)
                rt_some = vv.is_variant(runtime, "Some", OPT_VAL)
                rval = vv.field(runtime, "Some", 0, VAL)
                post = z3.Implies(has_const, z3.And(rt_some, vv.same(rval, cval)))
                detail = {"recorded_constant": ex.val_name(p2.st, cst)[:120], "runtime_value": ex.val_name(p2.st, runtime)[:160],
                          "path_is_root": [str(c) for c in p2.st.pc if "is_root" in str(c)]}
            role = "C12:assignment:recorded-constant-is-the-stored-value"
            o = Obl(role, {"C12"}, f"{role}#td{pi}#rt{pj}", p2, post, detail)
            o.ex = ex
            obls.append(o)
    if n_internal == 0:
        raise Unencodable("assignment simulation lemma: no Internal-target path (vacuous)")
    return obls, sorted(set(fns))


def variable_obligations(S):
    """`Variable`: under R for its identifier (LocalEnv[x].value = Some(c) ==> RuntimeState[x] = c),
    resolve_constant = Some(c) ==> resolve = Ok(c).  Both bodies run on the same `self`; the two stores are
    oracles keyed by the identifier term, so a lookup of a different identifier (or of a different field of
    the details) yields an unrelated value and the obligation fails."""
    obls, fns = [], []
    f_rc = S.method("Expression", "Variable", "resolve_constant")
    f_rs = S.method("Expression", "Variable", "resolve")
    fns += [(f_rc.name, f_rc.text_hash), (f_rs.name, f_rs.text_hash)]
    DET = "std::option::Option<&compiler::type_def::Details>"

    def m_local_var_details(ex, st, callee, args, dest_ty, frame, depth):
        key = _key(ex, st, args[1])
        st.ghost.setdefault("local_reads", []).append(key)
        out = []
        s_none = st.fork()
        out.append((s_none, Outcome("ret", Enum(dest_ty, bv64(0), {}))))
        cell = f"details[{key}]"
        if cell not in st.heap:
            st.heap[cell] = Agg("compiler::type_def::Details", {0: ex.fresh("compiler::type_def::TypeDef", f"local0[{key}].type_def"),
                                                                1: ex.fresh(OPT_VAL, f"local0[{key}].value")})
        out.append((st, Outcome("ret", ex.mk_enum(dest_ty, "Some", [Ref("&compiler::type_def::Details", cell, ())]))))
        return out

    oracles = [(re.compile(r"^(state::)?LocalEnv::variable$"), m_local_var_details),
               (re.compile(r"^(state::)?RuntimeState::variable$"), RL.m_variable),
               (re.compile(r"^context::Context::<'_>::state(_mut)?$"), RL.m_state_mut)]
    ex = S.executor(oracles=oracles, opaque=OPAQUE)
    selfv = ex.fresh("&variable::Variable", "self")
    paths1 = ex.run(f_rc, [selfv, ex.fresh("&TypeState", "tstate")], State())
    n_some = 0
    for pi, p1 in enumerate(paths1):
        if p1.outcome.kind != "ret":
            continue
        for s1, vn in ex.case_split(p1.st, p1.outcome.value, OPT_VAL):
            if vn != "Some":
                continue
            n_some += 1
            c = ex.enum_field(s1, p1.outcome.value, "Some", 0, VAL)
            reads = s1.ghost.get("local_reads", [])
            s2 = s1.fork()
            # R, instantiated for every identifier whose recorded constant was consulted
            for key in set(reads):
                cell = f"details[{key}]"
                if cell in s2.heap:
                    rec = ex.agg_field(s2, s2.heap[cell], 1, OPT_VAL)
                    vv0 = V(ex, s2)
                    rt = RL.vars_lookup(ex, s2, key)
                    ex.add_invariant(("R", key), z3.Implies(vv0.is_variant(rec, "Some", OPT_VAL),
                                                            z3.And(vv0.is_variant(rt, "Some", OPT_VAL),
                                                                   vv0.same(vv0.field(rt, "Some", 0, VAL), vv0.field(rec, "Some", 0, VAL)))))
            paths2 = ex.run(f_rs, [selfv, ex.fresh("&mut context::Context<'_>", "ctx")], s2)
            for pj, p2 in enumerate(paths2):
                vv = V(ex, p2.st)
                if p2.outcome.kind != "ret":
                    post = z3.BoolVal(False)
                else:
                    r = p2.outcome.value
                    post = z3.And(vv.is_variant(r, "Ok", RES), vv.same(vv.field(r, "Ok", 0, VAL), c))
                role = "C12:Variable:constant-matches-runtime"
                o = Obl(role, {"C12"}, f"{role}#rc{pi}#res{pj}", p2, post,
                        {"constant": ex.val_name(s1, c)[:120], "runtime": ex.val_name(p2.st, p2.outcome.value)[:160] if p2.outcome.kind == "ret" else p2.outcome.msg,
                         "hypothesis": "R for " + ", ".join(sorted(set(reads)))})
                o.ex = ex
                obls.append(o)
    if not n_some:
        raise Unencodable("Variable::resolve_constant never returns Some (vacuous)")
    return obls, fns


def details_merge_obligations(S):
    """`Details::merge` (the join at if/else and closures): the merged constant is kept only when both sides carry
    the same constant -- otherwise R would break on the branch that did not run"""
    obls, fns = [], []
    cands = [x for x in S.prog.find(None, "Details", "merge")]
    if len(cands) != 1:
        raise Unencodable(f"Details::merge: {len(cands)} bodies")
    f = cands[0]
    fns.append((f.name, f.text_hash))

    def m_opt_eq(ex, st, callee, args, dest_ty, frame, depth):
        a, b = ex.val_name(st, args[0]), ex.val_name(st, args[1])
        st.ghost.setdefault("eqs", []).append((a, b))
        return [(st, Outcome("ret", Prim("bool", z3.Bool(f"opt_eq({a},{b})"))))]

    ex = S.executor(oracles=[(re.compile(r"^<std::option::Option<value::value::Value> as PartialEq>::eq$|^<Option<value::value::Value> as PartialEq>::eq$"), m_opt_eq)], opaque=OPAQUE)
    a = Agg("compiler::type_def::Details", {0: ex.fresh("compiler::type_def::TypeDef", "a.type_def"), 1: ex.fresh(OPT_VAL, "a.value")})
    b = Agg("compiler::type_def::Details", {0: ex.fresh("compiler::type_def::TypeDef", "b.type_def"), 1: ex.fresh(OPT_VAL, "b.value")})
    paths = ex.run(f, [a, b], State())
    kept = 0
    for pi, p in enumerate(paths):
        bad = []
        if p.outcome.kind != "ret":
            bad.append(f"{p.outcome.kind}: {p.outcome.msg}")
        else:
            val = ex.agg_field(p.st, p.outcome.value, 1, OPT_VAL)
            name = ex.val_name(p.st, val)
            pcs = [str(c).replace("\n", " ") for c in p.st.pc]
            is_none = isinstance(val, Enum) and z3.is_bv_value(p.st.simp(val.discr)) and p.st.simp(val.discr).as_long() == 0
            if not is_none:
                kept += 1
                def positive_eq(c):
                    n = 0
                    while c.startswith("Not(") and c.endswith(")"):
                        c, n = c[4:-1], n + 1
                    return n % 2 == 0 and c.startswith("opt_eq(") and "a.value" in c and "b.value" in c
                agreed = any(positive_eq(c) for c in pcs)
                if name not in ("a.value", "b.value"):
                    bad.append(f"merged constant is {name}, neither side's")
                if not agreed:
                    bad.append(f"constant {name} kept although the two sides were not compared equal (path condition {pcs})")
        role = "C12:Details::merge:constant-kept-only-when-both-sides-agree"
        o = Obl(role, {"C12"}, f"{role}#path{pi}", p, z3.BoolVal(not bad), {"problems": bad})
        o.ex = ex
        obls.append(o)
    if not kept:
        raise Unencodable("Details::merge never keeps a constant (vacuous)")
    return obls, fns


def merge_battery():
    return [
        ({"source": "x = 2.0\nif .c == true { x = 2 }\n.r = mod(7, x)\n", "event": {"c": True}}, {"outcome": "ok", "types_sound": True}),
        ({"source": "x = 2.0\nif .c == true { x = 2 }\n.r = mod(7, x)\n", "event": {"c": False}}, {"outcome": "ok", "types_sound": True}),
        ({"source": "x = 9007199254740992.0\nif .c == true { x = 9007199254740993 }\ny, err = x - 9007199254740992\n.r = 10 / y\n", "event": {"c": False}}, {"accepted_never_fails": True}),
        ({"source": "x = 0\nif .flag == true { x = 2 }\n.r = 10 / x\n", "event": {"flag": False}}, {"accepted_never_fails": True}),
        ({"source": "x = 1\nif .flag == true { x = 2 } else { x = 0 }\n.r = 10 / x\n", "event": {"flag": False}}, {"accepted_never_fails": True}),
        ({"source": "x = 1\nif .flag == true { x = 0 } else { x = 2 }\n.r = 10 / x\n", "event": {"flag": True}}, {"accepted_never_fails": True}),
        ({"source": "x = 2\nif .flag == true { x = 0 }\n.r = 10 / x\n", "event": {"flag": True}}, {"accepted_never_fails": True}),
        ({"source": "x = 2\nif .flag == true { x = 0 } else { x = 4 }\n.r = 10 / x\n", "event": {"flag": True}}, {"accepted_never_fails": True}),
        ({"source": "x = 2\nif .flag == true { x = 2 } else { x = 2 }\n.r = 10 / x\n", "event": {"flag": True}}, {"outcome": "ok", "event_eq": {"r": {"Float": "0x4014000000000000"}}}),
    ]


def variable_battery():
    return [
        ({"source": "x = 2\ny = 0\n.r = 10 / x\n", "event": {}}, {"outcome": "ok", "event_eq": {"r": {"Float": "0x4014000000000000"}}}),
        ({"source": "y = 0\nx = 2\n.r = 10 / x\n", "event": {}}, {"outcome": "ok", "event_eq": {"r": {"Float": "0x4014000000000000"}}}),
        ({"source": "x = 2\n.r = 10 / x\n.s = x\n", "event": {}}, {"outcome": "ok", "types_sound": True, "event_eq": {"s": {"Integer": "2"}}}),
    ]


def battery():
    """accepted programs whose divisor's 'constant' went stale through a path assignment / deletion"""
    return [
        ({"source": "x = [1, 2, 3]\nx[0] = .divisor\n.r = 10 / x[0]\n", "event": {"divisor": 0}}, {"accepted_never_fails": True}),
        ({"source": "x = {\"a\": 2, \"b\": 3}\nx.a = .divisor\n.r = 10 / x.a\n", "event": {"divisor": 0}}, {"accepted_never_fails": True}),
        ({"source": "x = [[1, 2], 3]\nok, err = (x[0][0] = 5 / .divisor)\n.r = 10 / x[0][0]\n", "event": {"divisor": 0}}, {"accepted_never_fails": True}),
        ({"source": "x = {\"a\": 1}\nx.a = 5\n.r = 10 / x\n", "event": {}}, {"accepted_never_fails": True}),
        ({"source": "x = {\"a\": 2}\nx.b = 0\n.r = 10 / x.a\n", "event": {}}, {"accepted_never_fails": True, "event_eq": {"r": {"Float": "0x4014000000000000"}}}),
        ({"source": "x = [1, 2]\nx[1] = 7\n.r = 10 / x\n", "event": {}}, {"accepted_never_fails": True}),
        ({"source": "x = 2\nx = 5\n.r = 10 / x\n", "event": {}}, {"outcome": "ok", "event_eq": {"r": {"Float": "0x4000000000000000"}}}),
    ]
