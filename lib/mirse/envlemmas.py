"""C01 / C12 -- the two joins of the compiler's local environment, executed from their MIR over small explicit maps.

`LocalEnv::apply_child_scope(parent, child)` (the end of a `{ ... }` block) and `LocalEnv::merge(a, b)` (the join
after `if`/`else` and short-circuit operators) decide which type and which constant every variable carries after
the construct.  Both are run on maps with explicit, pairwise different identifiers (bounds: at most two bindings per
side, every shape of overlap), the bindings' contents arbitrary:

  apply_child_scope   every variable of the parent ends up with the child's binding if the child has one (the
                      block may have reassigned it: type *and* constant), with its own binding otherwise; variables
                      that exist only in the child are not visible afterwards
  merge               a variable bound on both sides gets `Details::merge(a's, b's)`; a variable bound on one side
                      keeps that binding

`HashMap<Ident, Details>` is modelled as an association list with concrete keys (get_mut / insert / owning
iteration); `Details::merge` is recorded, its own lemma is in simlemmas.  Found necessary by a seeded defect that
copied a child binding back only when its *type* differed, leaving a stale constant."""
import itertools
import re
from lemma import *
from nodelemmas import Obl
from iters import It, m_next

DET = "compiler::type_def::Details"
IDENT = "parser::ast::Ident"


def _map_of(ex, st, r):
    c, p = ex.deref_target(st, r)
    m = ex.read(st, c, p)
    if not (isinstance(m, Seq) and m.kind == "map"):
        raise Unencodable(f"HashMap operation on {m!r} (the lemma supplies explicit maps)")
    return c, p, m


def _key_name(ex, st, k):
    if isinstance(k, Ref) or (isinstance(k, Lazy) and is_ref(k.ty)):
        c, p = ex.deref_target(st, k)
        k = ex.read(st, c, p)
    return ex.val_name(st, k)


def m_map_get_mut(ex, st, callee, args, dest_ty, frame, depth):
    c, p, m = _map_of(ex, st, args[0])
    want = _key_name(ex, st, args[1])
    for kc, vc in m.items:
        if ex.val_name(st, st.heap[kc]) == want:
            return [(st, Outcome("ret", ex.mk_enum(dest_ty, "Some", [Ref("&mut " + DET, vc, ())])))]
    return [(st, Outcome("ret", Enum(dest_ty, bv64(0), {})))]


def m_map_insert(ex, st, callee, args, dest_ty, frame, depth):
    c, p, m = _map_of(ex, st, args[0])
    want = ex.val_name(st, args[1])
    for kc, vc in m.items:
        if ex.val_name(st, st.heap[kc]) == want:
            old = st.heap[vc]
            st.heap[vc] = args[2]
            return [(st, Outcome("ret", ex.mk_enum(dest_ty, "Some", [old])))]
    n = next(ex.counter)
    kc, vc = f"mapk{n}", f"mapv{n}"
    st.heap[kc], st.heap[vc] = args[1], args[2]
    ex.write(st, c, p, Seq(m.ty, tuple(m.items) + ((kc, vc),), "map"))
    return [(st, Outcome("ret", Enum(dest_ty, bv64(0), {})))]


def m_map_into_iter(ex, st, callee, args, dest_ty, frame, depth):
    m = args[0]
    if not (isinstance(m, Seq) and m.kind == "map"):
        raise Unencodable(f"into_iter on {m!r}")
    items = [("lit", Agg(f"({IDENT}, {DET})", {0: st.heap[kc], 1: st.heap[vc]})) for kc, vc in m.items]
    return [(st, Outcome("ret", It("list", ty=dest_ty, items=items)))]


def m_details_merge(ex, st, callee, args, dest_ty, frame, depth):
    a, b = ex.val_name(st, args[0]), ex.val_name(st, args[1])
    return [(st, Outcome("ret", ex.fresh(DET, f"Details::merge({a},{b})")))]


def m_details_clone(ex, st, callee, args, dest_ty, frame, depth):
    c, p = ex.deref_target(st, args[0])
    return [(st, Outcome("ret", ex.read(st, c, p)))]


ORACLES = [
    (re.compile(r"^HashMap::<(ast::)?Ident, Details>::get_mut::<"), m_map_get_mut),
    (re.compile(r"^HashMap::<(ast::)?Ident, Details>::insert$"), m_map_insert),
    (re.compile(r"^<HashMap<(ast::)?Ident, Details> as IntoIterator>::into_iter$"), m_map_into_iter),
    (re.compile(r"^<std::collections::hash_map::IntoIter<(ast::)?Ident, Details> as Iterator>::next$"), m_next),
    (re.compile(r"^Details::merge$"), m_details_merge),
    (re.compile(r"^<Details as Clone>::clone$"), m_details_clone),
]


def _mk_env(ex, st, tag, keys):
    items = []
    for k in keys:
        kc, vc = f"{tag}.k[{k}]", f"{tag}.v[{k}]"
        st.heap[kc] = ex.fresh(IDENT, f"ident_{k}")
        st.heap[vc] = ex.fresh(DET, f"{tag}[{k}]")
        items.append((kc, vc))
    return Agg("compiler::state::LocalEnv", {0: Seq("HashMap<Ident, Details>", tuple(items), "map")})


def _result_bindings(ex, st, env):
    m = ex.agg_field(st, env, 0, "HashMap<Ident, Details>")
    if not (isinstance(m, Seq) and m.kind == "map"):
        raise Unencodable(f"result environment is {m!r}")
    return {ex.val_name(st, st.heap[kc]).replace("ident_", ""): ex.val_name(st, st.heap[vc]) for kc, vc in m.items}


def _fn(S, name):
    c = [f for f in S.prog.find(None, "LocalEnv", name)]
    if len(c) != 1:
        raise Unencodable(f"LocalEnv::{name}: {len(c)} bodies")
    return c[0]


def obligations(S, max_keys=2):
    obls, fns = [], []
    f_scope, f_merge = _fn(S, "apply_child_scope"), _fn(S, "merge")
    fns += [(f_scope.name, f_scope.text_hash), (f_merge.name, f_merge.text_hash)]
    universe = ["x", "y", "z"]
    shapes = []
    for na in range(0, max_keys + 1):
        for nb in range(0, max_keys + 1):
            for ka in itertools.combinations(universe, na):
                for kb in itertools.combinations(universe, nb):
                    shapes.append((ka, kb))
    n_overlap = 0
    for ka, kb in shapes:
        for which, f in (("apply_child_scope", f_scope), ("merge", f_merge)):
            ex = S.executor(oracles=ORACLES, opaque=[r" as (std::cmp::)?PartialEq(<.*>)?>::(eq|ne)$", r"^TypeDef::\w+$", r"Kind>::\w+$"])
            st = State()
            a = _mk_env(ex, st, "parent" if which == "apply_child_scope" else "a", ka)
            b = _mk_env(ex, st, "child" if which == "apply_child_scope" else "b", kb)
            ta, tb = ("parent", "child") if which == "apply_child_scope" else ("a", "b")
            paths = ex.run(f, [a, b], st)
            for n_, h in ex.stats["fns_entered"].items():
                fns.append((n_, h))
            for pi, p in enumerate(paths):
                bad = []
                if p.outcome.kind != "ret":
                    bad.append(f"{p.outcome.kind}: {p.outcome.msg}")
                    got = None
                else:
                    got = _result_bindings(ex, p.st, p.outcome.value)
                    if which == "apply_child_scope":
                        want = {k: (f"{tb}[{k}]" if k in kb else f"{ta}[{k}]") for k in ka}
                    else:
                        want = {}
                        for k in sorted(set(ka) | set(kb)):
                            if k in ka and k in kb:
                                want[k] = f"Details::merge({ta}[{k}],{tb}[{k}])"
                            else:
                                want[k] = f"{ta}[{k}]" if k in ka else f"{tb}[{k}]"
                    if got != want:
                        bad.append(f"bindings afterwards {got}, expected {want}")
                if set(ka) & set(kb):
                    n_overlap += 1
                role = f"C01:LocalEnv::{which}:every-variable-carries-the-binding-of-the-code-that-ran"
                o = Obl(role, {"C01", "C02", "C12"}, f"{role}#{''.join(ka) or '-'}|{''.join(kb) or '-'}#path{pi}", p, z3.BoolVal(not bad),
                        {"problems": bad, "left": list(ka), "right": list(kb), "result": got})
                o.ex = ex
                obls.append(o)
    if not n_overlap:
        raise Unencodable("LocalEnv joins: no configuration with a shared variable (vacuous)")
    return obls, sorted(set(fns))


def battery():
    """a block / branch reassigns a variable to a same-typed different constant; a constant-sensitive consumer follows"""
    T = {"outcome": "ok", "types_sound": True}
    return [
        ({"source": ".a = {\"b\": 1}\ncompact = false\nif .flag == true { compact = true }\ndel(.a.b, compact: compact)\n.r = .a\n", "event": {"flag": True}}, T),
        ({"source": ".a = {\"b\": 1}\ncompact = false\n{ compact = true }\ndel(.a.b, compact: compact)\n.r = .a\n", "event": {}}, T),
        ({"source": "x = 2\n{ x = 0 }\n.r = 10 / x\n", "event": {}}, {"accepted_never_fails": True}),
        ({"source": "x = 2\nif .flag == true { x = 0 }\n.r = 10 / x\n", "event": {"flag": True}}, {"accepted_never_fails": True}),
        ({"source": "x = 1\n{ x = \"s\" }\n.r = x\n", "event": {}}, T),
        ({"source": "x = 1\n{ y = 2; x = y }\n.r = x\n", "event": {}}, T),
        ({"source": "x = 1\nif .flag == true { x = \"s\" } else { x = 2.5 }\n.r = x\n", "event": {"flag": False}}, T),
    ]
