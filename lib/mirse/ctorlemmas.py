"""Constructor-faithfulness lemmas (bridge between the compiled tree and the per-node runtime lemmas):
the node constructors that sit between the parser's AST and the runtime tree must put exactly the
sub-expressions (and the operator) they were given into the node they build.  Found necessary by a seeded
defect (an "optimisation" in `Op::new` that replaced the lhs of `||`/`&&` by a literal taken from the
type state *after* the rhs had been compiled): the runtime `resolve` bodies were untouched, so the node
lemmas alone could not see it.

Encoded from the MIR of: Op::new, Not::new, Return::new, Abort::new.  Type-checking helpers
(apply_type_info, resolve_constant, TypeDef/Kind predicates, TypeState::clone) are arbitrary opaque functions;
whatever they answer, an Ok(node) result must hold the input expressions unchanged."""
import re
from lemma import *
from nodelemmas import Obl

OPAQUE = [r"^<TypeState as Clone>::clone$", r"as Expression>::apply_type_info$", r"as Expression>::type_info$", r"^TypeDef::\w+$", r"^<TypeDef as Deref>::deref$",
          r"<impl value::kind::Kind>::\w+$", r"as Expression>::resolve_constant$", r"^<ast::Node<.*> as Deref>::deref$",
          r"^Span::\w+$", r"^<.* as Clone>::clone$", r"^Kind::\w+$", r"^TypeDef::<.*>::\w+", r"^<.* as Into<.*>>::into$"]


def m_box_new(ex, st, callee, args, dest_ty, frame, depth):
    cell = f"box{next(ex.counter)}"
    st.heap[cell] = args[0]
    return [(st, Outcome("ret", Ref(dest_ty, cell, ())))]


def m_node_deref(ex, st, callee, args, dest_ty, frame, depth):
    """<Node<T> as Deref>::deref(&node) -> &node.node"""
    c, p = ex.deref_target(st, args[0])
    return [(st, Outcome("ret", Ref(dest_ty, c, p + (("f", 1, "T"),))))]


ORACLES = [(re.compile(r"^Box::<.*>::new$"), m_box_new),
           (re.compile(r"^<ast::Node<.*> as Deref>::deref$"), m_node_deref)]

# constructor -> (type, fn name, [(arg name, arg type)], {result field index: input name whose `.1` (the Expr) must be stored there}, direct fields)
CTORS = {
    "Op::new": ("Op", "new", [("lhs", "ast::Node<expression::Expr>"), ("opcode", "ast::Node<ast::Opcode>"), ("rhs", "ast::Node<expression::Expr>"), ("state", "&TypeState")],
                {0: "lhs", 1: "rhs"}, {2: "opcode"}, ["lhs", "rhs", "opcode"], {"C08", "C09"}),
    "Not::new": ("Not", "new", [("node", "ast::Node<expression::Expr>"), ("not_span", "diagnostic::span::Span"), ("state", "&TypeState")],
                 {0: "node"}, {}, ["inner"], {"C09"}),
    "Return::new": ("Return", "new", [("span", "diagnostic::span::Span"), ("expr", "ast::Node<expression::Expr>"), ("state", "&TypeState")],
                    {1: "expr"}, {}, ["span", "expr"], {"C06"}),
}


def obligations(S):
    obls, fns = [], []
    for cname, (ty, fname, argspec, boxed, direct, fields, props) in CTORS.items():
        cands = [f for f in S.prog.find(None, ty, fname) if f"expression/{ty.lower()}.rs" in f.name or f"expression/return.rs" in f.name and ty == "Return"]
        if len(cands) != 1:
            raise Unencodable(f"{cname}: {len(cands)} MIR bodies")
        f = cands[0]
        src_fields = S.types.struct_fields(ty, "compiler::expression::" + ("return" if ty == "Return" else ty.lower()))
        if src_fields != fields:
            raise Unencodable(f"{ty} fields changed: {src_fields} (expected {fields})")
        ex = S.executor(oracles=ORACLES, opaque=OPAQUE)
        args = [ex.fresh(t, n) for n, t in argspec]
        paths = ex.run(f, args)
        fns.append((f.name, f.text_hash))
        for n_, h in ex.stats["fns_entered"].items():
            fns.append((n_, h))
        n_ok = 0
        for pi, p in enumerate(paths):
            def add(tag, post, detail=None):
                for prop in sorted(props):
                    role = f"{prop}:{cname}:{tag}"
                    o = Obl(role, {prop}, f"{role}#path{pi}", p, post, detail)
                    o.ex = ex
                    obls.append(o)
            if p.outcome.kind != "ret":
                o = Obl(f"C04:{cname}:{p.outcome.kind}", {"C04"}, f"C04:{cname}:{p.outcome.kind}#path{pi}", p, z3.BoolVal(False), {"msg": p.outcome.msg})
                o.ex = ex
                obls.append(o)
                continue
            v = V(ex, p.st)
            r = p.outcome.value
            d = p.st.simp(ex.discriminant(p.st, r))
            if not (z3.is_bv_value(d) and d.as_long() == 0):
                continue      # Err(..): the program is rejected, nothing runs
            n_ok += 1
            node = v.field(r, "Ok", 0, ty)
            conj = []
            for idx, inp in boxed.items():
                fld = ex.agg_field(p.st, node, idx, "Box<Expr>")
                got = None
                if isinstance(fld, Ref):
                    got = p.st.heap.get(fld.cell)
                want = ex.child_of(inp, "ast::Node<T>", None, 1, "compiler::expression::Expr")
                conj.append(v.same(got, want) if got is not None else z3.BoolVal(False))
            for idx, inp in direct.items():
                fld = ex.agg_field(p.st, node, idx, "T")
                want = ex.child_of(inp, "ast::Node<T>", None, 1, "T")
                conj.append(v.same(fld, want))
            add("node-holds-the-given-subexpressions", z3.And(conj), {"result": ex.val_name(p.st, r)[:160]})
            if cname == "Not::new":
                # `!e` fails at runtime unless e is a boolean and Not::type_info does not look at the kind: the
                # constructor is the only guard -- an accepted node's operand type passed `is_boolean`
                pcs = [str(c).replace("\n", " ") for c in p.st.pc]

                def pos_bool(c):
                    n = 0
                    while c.startswith("Not(") and c.endswith(")"):
                        c, n = c[4:-1], n + 1
                    return n % 2 == 0 and "is_boolean(" in c and "node" in c
                o = Obl("C02:Not::new:accepts-only-boolean-operands", {"C02"}, f"C02:Not::new:accepts-only-boolean-operands#path{pi}", p,
                        z3.BoolVal(any(pos_bool(c) for c in pcs)), {"path_condition": pcs[:6]})
                o.ex = ex
                obls.append(o)
        if n_ok == 0:
            raise Unencodable(f"{cname}: no Ok path (vacuous)")
    return obls, sorted(set(fns))


# ----------------------------------------------------------------------------- native replay: a battery of programs

def battery():
    """programs whose meaning depends on the operator node holding exactly the written operands;
    expectations follow from the language definition for these concrete operand values"""
    out = []
    vals = {"true": True, "false": False, "null": None}
    for op in ("||", "&&"):
        for lname, lv in vals.items():
            for wname, wv in vals.items():
                # flag variable as lhs; the rhs re-assigns the flag and has a side effect
                src = f"flag = {lname}\n.res = flag {op} {{ .ran_rhs = true; flag = {wname}; true }}\n.flag_after = flag\n"
                falsy = lv in (False, None)
                if op == "||":
                    runs = falsy
                    res = True if runs else lv
                else:
                    runs = not falsy
                    res = True if runs else False
                exp = {"outcome": "ok", "event_eq": {"res": {"Boolean": res} if res is not None else "Null",
                                                     "flag_after": ({"Boolean": wv} if wv is not None else "Null") if runs else ({"Boolean": lv} if lv is not None else "Null")}}
                if runs:
                    exp["event_has"] = ["ran_rhs"]
                else:
                    exp["event_lacks"] = ["ran_rhs"]
                out.append(({"source": src, "event": {}}, exp))
            # event field as lhs
            src = f".res = .f {op} {{ .ran_rhs = true; .f = true; true }}\n"
            falsy = lv in (False, None)
            runs = falsy if op == "||" else not falsy
            res = (True if runs else lv) if op == "||" else (True if runs else False)
            exp = {"outcome": "ok", "event_eq": {"res": {"Boolean": res} if res is not None else "Null"}}
            exp["event_has" if runs else "event_lacks"] = ["ran_rhs"]
            out.append(({"source": src, "event": {"f": lv}}, exp))
    # arithmetic / comparison operands are the written ones, in order
    out.append(({"source": "x = 7\n.res = x - { x = 2; 3 }\n", "event": {}}, {"outcome": "ok", "event_eq": {"res": {"Integer": "4"}}}))
    out.append(({"source": "x = 7\n.res = { x = 2; 3 } - x\n", "event": {}}, {"outcome": "ok", "event_eq": {"res": {"Integer": "1"}}}))
    out.append(({"source": ".res = !{ .ran = true; false }\n", "event": {}}, {"outcome": "ok", "event_eq": {"res": {"Boolean": True}}, "event_has": ["ran"]}))
    out.append(({"source": "x = 1\nreturn { x = 5; x }\n", "event": {}}, {"outcome": "ok", "value": {"Integer": "5"}}))
    return out


def replay_battery():
    """returns (spec, expect, native) for the first program whose native run deviates, else None"""
    import vrl_replay, witness
    items = battery()
    nat_all = {}
    for prof in ("dev", "release"):
        obs = vrl_replay.call("run", [s for s, _ in items], prof)
        if obs is None:
            continue
        for (spec, exp), o in zip(items, obs):
            mm = witness.mismatch(o, exp)
            if mm:
                return spec, exp, {prof: "REPRODUCED: " + "; ".join(mm)}
    return None
