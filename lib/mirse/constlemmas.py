"""C12 fragment (and the control-flow half of C06/C07): compile-time constants agree with runtime evaluation,
node by node.

For every expression node that overrides `Expression::resolve_constant`, both bodies are executed
symbolically from the same arbitrary node:

    resolve_constant(self, state) = Some(v)   ==>   resolve(self, ctx) = Ok(v), with no store / target effect

under the induction hypothesis for the children (a child whose resolve_constant answered Some(cv) resolves to
Ok(cv); any other child is arbitrary).  A node whose evaluation is a control-flow outcome (`return`, `abort`)
or has side effects must therefore not claim a constant: a seeded defect that let `{ return c }` report the
constant c (so that const-folding functions never evaluated the argument, and the `return` never ran) is
exactly a violation of this lemma at node `Return`.

Nodes whose constant comes from the *type state* (Variable; Query over a variable) relate two different stores
(compile-time LocalEnv vs runtime RuntimeState); that relation is the compiler's own invariant and is assumed,
not proved (listed in the evidence)."""
import re
from lemma import *
from nodelemmas import Obl, OPAQUE, RES, EE, VAL, TargetOracle, TargetOpOracle, child_label

OPT_VAL = "std::option::Option<value::value::Value>"

STATE_BASED = {"Variable": "constant comes from LocalEnv (type state), value from RuntimeState: proved separately under the store relation R (simlemmas.variable_obligations)",
               "FunctionExpressionAdapter": "constant is FunctionExpression::as_value(): each stdlib function's own contract (as_value() == what resolve returns)"}


class RcOracle:
    def __call__(self, ex, st, callee, args, dest_ty, frame, depth):
        child = args[0]
        if isinstance(child, Ref):
            label = child.cell.lstrip("*") + "".join(f".{p[1]}" for p in child.path)
        elif isinstance(child, Lazy):
            label = child.uid
        else:
            label = ex.val_name(st, child)
        n = len(st.trace)
        res = ex.fresh(OPT_VAL, f"rc{n}[{label}]")
        st.trace.append({"kind": "rc", "child": label, "result": res, "n": n})
        return [(st, Outcome("ret", res))]


class ResolveWithConstants:
    """child resolve oracle under the induction hypothesis"""

    def __init__(self, known):
        self.known = known

    def __call__(self, ex, st, callee, args, dest_ty, frame, depth):
        child = args[0]
        if isinstance(child, Ref):
            label = child.cell.lstrip("*") + "".join(f".{p[1]}" for p in child.path)
        elif isinstance(child, Lazy):
            label = child.uid
        else:
            label = ex.val_name(st, child)
        n = len(st.trace)
        if label in self.known:
            res = ex.mk_enum(RES, "Ok", [self.known[label]])
        else:
            res = ex.fresh(RES, f"res{n}[{label}]")
        st.trace.append({"kind": "resolve", "child": label, "result": res, "n": n, "constant": label in self.known})
        return [(st, Outcome("ret", res))]


def overriding_nodes(S):
    """node types under src/compiler/expression that define their own resolve_constant (from the MIR dump)"""
    out = {}
    for f in S.prog.fns:
        m = re.match(r"^.*<impl at (src/compiler/expression[^:>]*\.rs):(\d+):\d+: \d+:\d+>::resolve_constant$", f.name)
        if m:
            tr_ty = S.types.impls.get((m.group(1), int(m.group(2))))
            if tr_ty and tr_ty[0] == "Expression":
                out[tr_ty[1]] = f
    return out


def run_pair(S, ty, f_rc, bounds):
    """yields obligations for node type ty"""
    obls, fns = [], [(f_rc.name, f_rc.text_hash)]
    f_res = S.method("Expression", ty, "resolve")
    fns.append((f_res.name, f_res.text_hash))
    self_ty = f_rc.params[0][1]
    seqs = [None]
    if ty in ("Array", "Object", "Block"):
        seqs = [(0, n, "map" if ty == "Object" else "slice") for n in range(0, bounds.get("array", 2) + 1)]
    for seq in seqs:
        known_box = {}
        orc = [(re.compile(r"^<.* as (Function)?Expression>::resolve_constant$"), RcOracle()),
               (re.compile(r"^<.* as (Function)?Expression>::resolve$"), lambda ex, st, callee, args, dest_ty, frame, depth: ResolveWithConstants(known_box["k"])(ex, st, callee, args, dest_ty, frame, depth)),
               (re.compile(r"^assignment::Target::insert$"), TargetOracle()),
               (re.compile(r"^<dyn (target::)?Target as (target::)?Target>::target_(get|insert|remove|get_mut)$"), TargetOpOracle())]
        ex = S.executor(oracles=orc, opaque=OPAQUE + [r"<impl .*Literal>::to_value$", r"^Literal::to_value$", r"^literal::<impl .*>::to_value$",
                                                      r"^<std::option::Option<value::value::Value> as Clone>::clone$", r"^context::Context::<'_>::(state|target)$",
                                                      r"^(state::)?(RuntimeState|LocalEnv)::variable$", r"^<.* as FunctionExpression>::as_value$"])
        st = State()
        if seq is None:
            selfv = ex.fresh(self_ty, "self")
        else:
            field_idx, n, kind = seq
            items = []
            for i in range(n):
                if kind == "map":
                    kc, vc = f"self.inner[{i}].key", f"self.inner[{i}]"
                    st.heap[kc] = ex.fresh("KeyString", f"key{i}")
                    st.heap[vc] = ex.fresh("compiler::expression::Expr", f"elem{i}")
                    items.append((kc, vc))
                else:
                    c = f"self.inner[{i}]"
                    st.heap[c] = ex.fresh("compiler::expression::Expr", f"elem{i}")
                    items.append(c)
            st.heap["*self"] = Agg(self_ty.lstrip("&"), {field_idx: Seq("Vec<Expr>", items, kind)}, origin="self*")
            selfv = Ref(self_ty, "*self", ())
        base_heap = dict(st.heap)
        known_box["k"] = {}
        paths1 = ex.run(f_rc, [selfv, ex.fresh("&TypeState", "state")], st)
        tag = ty + (f"(n={seq[1]})" if seq else "")
        for pi, p1 in enumerate(paths1):
            if p1.outcome.kind != "ret":
                o = Obl(f"C04:{tag}::resolve_constant:{p1.outcome.kind}", {"C04"}, f"C04:{tag}:rc#path{pi}", p1, z3.BoolVal(False), {"msg": p1.outcome.msg})
                o.ex = ex
                obls.append(o)
                continue
            r1 = p1.outcome.value
            d = p1.st.simp(ex.discriminant(p1.st, r1))
            if not z3.is_bv_value(d):
                # symbolic Option (e.g. passed through from a child): split by hand
                cases = ex.case_split(p1.st.fork(), r1, OPT_VAL)
            else:
                cases = [(p1.st, "Some" if d.as_long() == 1 else "None")]
            for st1, vn in cases:
                if vn != "Some":
                    continue
                v1 = ex.enum_field(st1, r1, "Some", 0, VAL)
                known = {}
                for e in st1.trace:
                    if e["kind"] != "rc":
                        continue
                    dd = st1.simp(ex.discriminant(st1, e["result"]))
                    if z3.is_bv_value(dd) and dd.as_long() == 1:
                        known[e["child"]] = ex.enum_field(st1, e["result"], "Some", 0, VAL)
                known_box["k"] = known
                st2 = State()
                st2.heap = dict(st1.heap)
                st2.pc = list(st1.pc)
                st2.known = dict(st1.known)
                paths2 = ex.run(f_res, [selfv, ex.fresh("&mut context::Context<'_>", "ctx")], st2)
                for pj, p2 in enumerate(paths2):
                    v = V(ex, p2.st)
                    effects = [e for e in p2.st.trace if e["kind"] in ("store", "target")]
                    if p2.outcome.kind == "ret":
                        r2 = p2.outcome.value
                        post = z3.And(v.is_variant(r2, "Ok", RES), v.same(v.field(r2, "Ok", 0, VAL), v1), z3.BoolVal(not effects))
                    else:
                        post = z3.BoolVal(False)
                    props = {"C12"}
                    if ty == "Return":
                        props.add("C06")
                    if ty == "Abort":
                        props.add("C07")
                    for prop in sorted(props):
                        role = f"{prop}:{tag}:constant-matches-runtime"
                        o = Obl(role, {prop}, f"{role}#rc{pi}#res{pj}", p2, post,
                                {"constant": ex.val_name(st1, v1)[:120], "runtime": ex.val_name(p2.st, p2.outcome.value)[:160] if p2.outcome.kind == "ret" else p2.outcome.msg,
                                 "children_constant": sorted(known)})
                        o.ex = ex
                        obls.append(o)
        for n_, h in ex.stats["fns_entered"].items():
            fns.append((n_, h))
    return obls, fns


def obligations(S, bounds=None):
    bounds = bounds or {"array": 2}
    obls, fns, assumed = [], [], {}
    for ty, f_rc in sorted(overriding_nodes(S).items()):
        if ty in STATE_BASED:
            assumed[ty] = STATE_BASED[ty]
            continue
        o, f = run_pair(S, ty, f_rc, bounds)
        obls += o
        fns += f
    return obls, sorted(set(fns)), assumed


# ----------------------------------------------------------------------------- native replay battery

def battery(node):
    """programs in which a const-folding consumer would skip evaluating the node if it wrongly claims a constant"""
    out = []
    if node.startswith("Return"):
        out.append(({"source": ".r = zip({ return [1, 2] }, [3, 4])\n.after = true\n", "event": {}},
                    {"outcome": "ok", "value": {"Array": [{"Integer": "1"}, {"Integer": "2"}]}, "event_lacks": ["after", "r"]}))
        out.append(({"source": "x = { return 7 }\n.after = true\n", "event": {}}, {"outcome": "ok", "value": {"Integer": "7"}, "event_lacks": ["after"]}))
    if node.startswith("Abort"):
        out.append(({"source": ".r = zip({ abort }, [3, 4])\n.after = true\n", "event": {}}, {"outcome": "abort", "event_lacks": ["after", "r"]}))
    if node.startswith("Block") or node.startswith("Group") or node.startswith("Container"):
        out.append(({"source": ".r = zip({ .ran = true; [1, 2] }, [3, 4])\n", "event": {}}, {"outcome": "ok", "event_has": ["ran"]}))
    if node.startswith("Op"):
        out.append(({"source": ".r = 10 / (2 + 3)\n.s = 9007199254740993 - 1\n", "event": {}},
                    {"outcome": "ok", "event_eq": {"r": {"Float": "0x4000000000000000"}, "s": {"Integer": "9007199254740992"}}}))
    if node.startswith("Array") or node.startswith("Object"):
        out.append(({"source": ".r = zip([{ .ran = true; 1 }, 2], [3, 4])\n", "event": {}}, {"outcome": "ok", "event_has": ["ran"]}))
    return out
