"""Lemma framework on top of symex: MIR session (dump + parse, regenerated from /repo on each run),
value predicates, oracles for child expressions / targets, per-path discharge with z3 (+ cvc5 cross-check
through SMT-LIB2 text in the thorough tier), counterexample decoding."""
import os, re, sys, time, subprocess, hashlib
import z3

sys.path.insert(0, os.path.dirname(os.path.abspath(__file__)))
sys.path.insert(0, os.path.dirname(os.path.dirname(os.path.abspath(__file__))))
from symex import *
import common


# ----------------------------------------------------------------------------- MIR session

class Session:
    _cache = {}

    def __init__(self, features="compiler", overflow_checks=True):
        self.features = features
        self.overflow = overflow_checks
        self.types = SourceTypes(common.REPO)
        self.dump_path, self.dump_secs = self._dump()
        fns = parse_mir(self.dump_path)
        self.prog = MirProgram(fns, self.types)

    @classmethod
    def get(cls, features="compiler", overflow_checks=True):
        k = (features, overflow_checks)
        if k not in cls._cache:
            cls._cache[k] = Session(features, overflow_checks)
        return cls._cache[k]

    def _src_fingerprint(self):
        h = hashlib.sha256()
        for root in ("src",):
            for dp, dn, fn in sorted(os.walk(os.path.join(common.REPO, root))):
                dn.sort()
                for f in sorted(fn):
                    if f.endswith((".rs", ".lalrpop", ".pest")):
                        p = os.path.join(dp, f)
                        h.update(p.encode())
                        h.update(open(p, "rb").read())
        for f in ("Cargo.toml", "Cargo.lock", "build.rs"):
            p = os.path.join(common.REPO, f)
            if os.path.exists(p):
                h.update(open(p, "rb").read())
        return h.hexdigest()[:20]

    def _dump(self):
        """MIR dump of /repo's working tree. Regenerated whenever any source file differs from the one
        the cached dump was made from (content hash), i.e. on every change of the tree."""
        tag = f"{self.features.replace(',', '+')}-{'oc' if self.overflow else 'nooc'}"
        out = os.path.join(common.SCRATCH, f"mir-{tag}.txt")
        stamp = out + ".stamp"
        fp = self._src_fingerprint()
        if os.path.exists(out) and os.path.exists(stamp) and open(stamp).read().strip() == fp and os.path.getsize(out) > 1000000:
            return out, 0.0
        tdir = os.path.join(common.SCRATCH, "mir-target")
        os.makedirs(tdir, exist_ok=True)
        os.utime(os.path.join(common.REPO, "src/lib.rs"))
        cmd = ["cargo", "+nightly", "rustc", "--offline", "--lib", "--no-default-features", "--features", self.features,
               "--", "-Zunpretty=mir", "-C", "debug-assertions=off", "-C", f"overflow-checks={'on' if self.overflow else 'off'}"]
        t = time.time()
        tmp = out + f".tmp{os.getpid()}"
        with open(tmp, "w") as f:
            p = subprocess.run(cmd, cwd=common.REPO, stdout=f, stderr=subprocess.PIPE, text=True,
                               env=dict(os.environ, CARGO_TARGET_DIR=tdir, CARGO_NET_OFFLINE="true"))
        if p.returncode != 0 or os.path.getsize(tmp) < 1000000:
            raise Unencodable("MIR dump failed: " + p.stderr[-2000:])
        os.replace(tmp, out)
        open(stamp, "w").write(fp)
        return out, time.time() - t

    def executor(self, oracles=None, opaque=None, **kw):
        ex = Executor(self.prog, self.types, oracles=oracles, **kw)
        ex.opaque = [re.compile(r) if isinstance(r, str) else r for r in (opaque or [])]
        return ex

    def method(self, trait, ty, name):
        c = self.prog.find(trait, ty, name)
        if len(c) != 1:
            raise Unencodable(f"expected exactly one MIR body for <{ty} as {trait}>::{name}, found {len(c)}")
        return c[0]


# ----------------------------------------------------------------------------- value predicates

class V:
    """helpers building z3 formulas over symbolic values of one executor/state"""

    def __init__(self, ex, st):
        self.ex, self.st = ex, st

    def discr(self, v):
        return self.ex.discriminant(self.st, v)

    def is_variant(self, v, variant, ty=None):
        k = self.ex.variant_index(ty or v.ty, variant)
        return self.discr(v) == bv64(k)

    def field(self, v, variant, idx, ty):
        return self.ex.enum_field(self.st, v, variant, idx, ty)

    def sfield(self, v, idx, ty):
        return self.ex.agg_field(self.st, v, idx, ty)

    def term(self, v):
        """an uninterpreted z3 constant standing for the whole lazy value"""
        srt = z3.DeclareSort("T_" + re.sub(r"\W+", "_", last_seg(v.ty)))
        return z3.Const("whole:" + v.uid, srt)

    def same(self, a, b):
        ex, st = self.ex, self.st
        if a is b:
            return z3.BoolVal(True)
        if a is None or b is None:
            return z3.BoolVal(False)
        if isinstance(a, Prim) and isinstance(b, Prim):
            if a.e.sort() != b.e.sort():
                return z3.BoolVal(False)
            return a.e == b.e
        if isinstance(a, Lazy) and isinstance(b, Lazy):
            if a.uid == b.uid:
                return z3.BoolVal(True)
            if last_seg(a.ty) != last_seg(b.ty):
                return z3.BoolVal(False)
            return self.term(a) == self.term(b)
        if isinstance(a, (StrConst,)) and isinstance(b, StrConst):
            return z3.BoolVal(a.s == b.s)
        if isinstance(a, FnItem) and isinstance(b, FnItem):
            return z3.BoolVal(a.text == b.text)
        if isinstance(a, Seq) and isinstance(b, Seq):
            if len(a.items) != len(b.items) or a.kind != b.kind:
                return z3.BoolVal(False)
            fs = []
            for x, y in zip(a.items, b.items):
                if a.kind == "map":
                    fs.append(self.same(st.heap.get(x[0]), st.heap.get(y[0])))
                    fs.append(self.same(st.heap.get(x[1]), st.heap.get(y[1])))
                else:
                    fs.append(self.same(st.heap.get(x), st.heap.get(y)))
            return z3.And(fs) if fs else z3.BoolVal(True)
        if isinstance(a, Ref) and isinstance(b, Ref):
            return z3.BoolVal(a.cell == b.cell and a.path == b.path)
        if isinstance(a, Enum) or isinstance(b, Enum):
            if isinstance(a, Lazy):
                a = Enum(a.ty, ex.discr_of(a.uid, a.ty), {}, origin=a.uid)
            if isinstance(b, Lazy):
                b = Enum(b.ty, ex.discr_of(b.uid, b.ty), {}, origin=b.uid)
            if not (isinstance(a, Enum) and isinstance(b, Enum)):
                return z3.BoolVal(False)
            ty = a.ty if ex.types.enum_variants(a.ty, ex.hint_mod) else b.ty
            vs = ex.types.enum_variants(ty, ex.hint_mod)
            if vs is None:
                return z3.BoolVal(False)
            conj = [a.discr == b.discr]
            for name, k in vs:
                pa, pb = a.payloads.get(name, {}), b.payloads.get(name, {})
                idxs = sorted(set(pa) | set(pb))
                if not idxs:
                    if a.origin is not None and a.origin == b.origin:
                        continue
                    if a.origin is None and b.origin is None:
                        continue    # both built explicitly with no fields for this variant: unit variant
                    # one side is an unexamined payload of a different origin: not provably equal
                    # unless that variant is excluded by the discriminants
                    if a.origin is None and name not in a.payloads:
                        # a was built as another variant
                        continue
                    if b.origin is None and name not in b.payloads:
                        continue
                    conj.append(z3.Implies(a.discr == bv64(k), z3.BoolVal(False)))
                    continue
                fs = []
                for i in idxs:
                    fa = pa.get(i)
                    fb = pb.get(i)
                    t = (fa or fb).ty
                    if fa is None:
                        fa = ex.enum_field(st, a, name, i, t)
                    if fb is None:
                        fb = ex.enum_field(st, b, name, i, t)
                    fs.append(self.same(fa, fb))
                conj.append(z3.Implies(a.discr == bv64(k), z3.And(fs) if fs else z3.BoolVal(True)))
            return z3.And(conj)
        if isinstance(a, Agg) or isinstance(b, Agg):
            if isinstance(a, Lazy):
                a = Agg(a.ty, {}, origin=a.uid)
            if isinstance(b, Lazy):
                b = Agg(b.ty, {}, origin=b.uid)
            if not (isinstance(a, Agg) and isinstance(b, Agg)):
                return z3.BoolVal(False)
            idxs = sorted(set(a.fields) | set(b.fields))
            if not idxs:
                return z3.BoolVal(a.origin == b.origin)
            fs = []
            for i in idxs:
                fa, fb = a.fields.get(i), b.fields.get(i)
                t = (fa or fb).ty
                if fa is None:
                    fa = ex.agg_field(st, a, i, t)
                if fb is None:
                    fb = ex.agg_field(st, b, i, t)
                fs.append(self.same(fa, fb))
            return z3.And(fs)
        return z3.BoolVal(False)


# ----------------------------------------------------------------------------- discharge

class Discharger:
    def __init__(self, ex, evidence, prop, cvc5_cross=False):
        self.ex, self.ev, self.prop = ex, evidence, prop
        self.cvc5_cross = cvc5_cross
        self.failures = []     # (name, path, model)
        self.inconclusive = []

    def check(self, name, path, post, detail=None):
        """obligation: invariants ∧ pc ⊨ post.  Returns True (discharged) / False (refuted) / None (unknown)."""
        s = z3.Solver()
        s.set("timeout", self.ex.solver_timeout_ms)
        for c in self.ex.invariants:
            s.add(c)
        for c in path.st.pc:
            s.add(c)
        s.add(z3.Not(post))
        t = time.time()
        r = s.check()
        dt = time.time() - t
        if r == z3.unsat and self.cvc5_cross:
            r2 = cvc5_check(_renamed_smt2(s))
            if r2 not in ("unsat",):
                self.inconclusive.append(f"{name}: z3 unsat but cvc5 says {r2}")
                self.ev.obligation(name, False, dt, detail={"z3": "unsat", "cvc5": r2})
                return None
        if r == z3.unsat:
            self.ev.obligation(name, True, dt, detail=detail)
            return True
        if r == z3.sat:
            self.ev.obligation(name, False, dt, detail=detail)
            self.failures.append((name, path, s.model()))
            return False
        # the solver gave up (typically a floating-point multiplier/divider): look for a counterexample among
        # edge values of the 64-bit integer inputs -- each candidate is decided by the solver with the inputs fixed
        m = self._edge_search(s)
        if m is not None:
            self.ev.obligation(name, False, time.time() - t, detail={**(detail or {}), "solver": "unknown on the open query; counterexample found by fixing integer inputs to edge values"})
            self.failures.append((name, path, m))
            return False
        self.ev.obligation(name, False, dt, detail={"solver": "unknown", "reason": s.reason_unknown()})
        self.inconclusive.append(f"{name}: solver unknown ({s.reason_unknown()})")
        return None

    EDGE64 = [0, 1, -1, 2, -2, 3, 10, -10, (1 << 63) - 1, -(1 << 63), -(1 << 63) + 1, (1 << 53) + 1, -(1 << 53) - 1, (1 << 62), 3 * ((1 << 53) + 1), 1 << 32]

    def _edge_search(self, solver, budget=600):
        import itertools
        consts = {}

        def walk(e, seen):
            if e.get_id() in seen:
                return
            seen.add(e.get_id())
            if z3.is_const(e) and e.decl().kind() == z3.Z3_OP_UNINTERPRETED and z3.is_bv(e) and e.size() == 64 and "discr(" not in str(e):
                consts[str(e)] = e
            for c in e.children():
                walk(c, seen)
        seen = set()
        for a in solver.assertions():
            walk(a, seen)
        names = sorted(consts)[:3]
        if not names:
            return None
        n = 0
        for combo in itertools.product(self.EDGE64, repeat=len(names)):
            n += 1
            if n > budget:
                break
            solver.push()
            for nm, val in zip(names, combo):
                solver.add(consts[nm] == z3.BitVecVal(val, 64))
            solver.set("timeout", 1500)
            r = solver.check()
            if r == z3.sat:
                m = solver.model()
                solver.pop()
                return m
            solver.pop()
        return None

    def reachable(self, name, path, cond=None):
        """vacuity guard: the path (optionally with cond) must be satisfiable"""
        s = z3.Solver()
        s.set("timeout", self.ex.solver_timeout_ms)
        for c in self.ex.invariants:
            s.add(c)
        for c in path.st.pc:
            s.add(c)
        if cond is not None:
            s.add(cond)
        return s.check() == z3.sat


def _renamed_smt2(solver):
    """the solver's assertions with every uninterpreted constant renamed k0, k1, ...: our descriptive term names contain
    characters (|, backslash) that SMT-LIB quoted symbols cannot carry"""
    consts, seen = {}, set()

    def walk(e):
        if e.get_id() in seen:
            return
        seen.add(e.get_id())
        if z3.is_const(e) and e.decl().kind() == z3.Z3_OP_UNINTERPRETED:
            consts.setdefault(e.get_id(), e)
        elif z3.is_app(e) and e.decl().kind() == z3.Z3_OP_UNINTERPRETED:
            # uninterpreted functions (fmod) keep their name when it is a plain SMT-LIB symbol
            if not re.fullmatch(r"[A-Za-z_][A-Za-z0-9_]*", e.decl().name()):
                raise Unencodable(f"cvc5 cross-check: uninterpreted function {e.decl().name()} (renaming handles constants only)")
        for c in e.children():
            walk(c)
    for a in solver.assertions():
        walk(a)
    sub = [(e, z3.Const(f"k{i}", e.sort())) for i, e in enumerate(consts.values())]
    s2 = z3.Solver()
    for a in solver.assertions():
        s2.add(z3.substitute(a, *sub) if sub else a)
    return s2.to_smt2()


def cvc5_check(smt2, timeout_s=60):
    txt = "(set-logic ALL)\n" + smt2 + "\n(check-sat)\n" if "(check-sat)" not in smt2 else "(set-logic ALL)\n" + smt2
    try:
        p = subprocess.run(["cvc5", "--lang", "smt2", f"--tlimit={timeout_s*1000}"], input=txt, capture_output=True, text=True, timeout=timeout_s + 10)
    except Exception as e:  # noqa
        return f"error:{e}"
    out = p.stdout.strip().splitlines()
    if any(l.startswith("(error") for l in out) or "(error" in p.stderr:
        if os.environ.get("VERIF_KEEP_CVC5"):
            with open(os.path.join(os.environ["VERIF_KEEP_CVC5"], f"cvc5-{abs(hash(txt))}.smt2"), "w") as f:
                f.write(txt)
        return "error:" + (p.stdout + p.stderr)[:200]
    return out[-1] if out else "error:no output"


# ----------------------------------------------------------------------------- oracles

def describe_cell(ex, cell, self_ty=None):
    """'*self*.0.0.0' -> 'self.lhs' using struct field names where known"""
    name = cell.lstrip("*")
    m = re.match(r"^(\w+)\*((?:\.\w+)*)$", name)
    return name


class ChildOracle:
    """`<Expr as Expression>::resolve(child, ctx)` and friends: returns an arbitrary `Resolved`, logs the call."""

    def __init__(self, label_of=None, result_ty="std::result::Result<value::value::Value, compiler::expression_error::ExpressionError>"):
        self.label_of = label_of
        self.result_ty = result_ty

    def __call__(self, ex, st, callee, args, dest_ty, frame, depth):
        child = args[0]
        if isinstance(child, Ref):
            label = child.cell.lstrip("*") + "".join(f".{p[1]}" for p in child.path)
        elif isinstance(child, Lazy):
            label = child.uid
        else:
            label = ex.val_name(st, child)
        if self.label_of:
            label = self.label_of(label)
        n = len(st.trace)
        res = ex.fresh(self.result_ty if dest_ty in (None, "?") else dest_ty, f"res{n}[{label}]")
        st.trace.append({"kind": "resolve", "child": label, "result": res, "n": n, "callee": callee})
        return [(st, Outcome("ret", res))]


def outcome_name(ex, model, v):
    """decode a Resolved lazy value in a model: 'Ok' | 'Err(Abort)' | ..."""
    d = model.eval(ex.discr_of(v.uid, v.ty), model_completion=True).as_signed_long()
    if d == 0:
        return "Ok"
    e = ex.child_of(v.uid, v.ty, "Err", 0, "compiler::expression_error::ExpressionError")
    vs = ex.types.enum_variants("compiler::expression_error::ExpressionError")
    de = model.eval(ex.discr_of(e.uid, e.ty), model_completion=True).as_signed_long()
    nm = [n for n, k in vs if k == de]
    return f"Err({nm[0] if nm else de})"
