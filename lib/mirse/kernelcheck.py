"""Generic check driver for kernel-level lemmas of engine S: discharge, known findings, native replay."""
import json, os, hashlib
from lemma import *
import common
import vrl_replay


def check(prop, ev, obligations_fn, replayer, cvc5_cross=False, mutants=None):
    viol, inconc, known_lines = [], [], []
    known = common.known_for(prop)
    try:
        S = Session.get()
        ev.cov["mir_dump_s"] = round(S.dump_secs, 1)
        obls, fns = obligations_fn(S)
    except Unencodable as e:
        inconc.append(f"unencodable: {e}")
        return viol, inconc, known_lines
    ev.cov["functions_encoded"] = [f"{n} [mir sha256:{h}]" for n, h in fns]
    mine = [o for o in obls if prop in o.props]
    refuted = {}
    for o in mine:
        D = Discharger(o.ex, ev, prop, cvc5_cross=cvc5_cross)
        r = D.check(o.name, o.path, o.post, detail={"role": o.role, **(o.detail or {})})
        if r is False:
            refuted.setdefault(o.role, []).append((o, D.failures[-1][2]))
        elif r is None:
            inconc += D.inconclusive
    # mutant self-tests (vacuity guard): deliberately wrong conclusions must be refuted
    for name, o, wrong_post in (mutants(mine) if mutants else []):
        D = Discharger(o.ex, common.Evidence("scratch", "other"), prop)
        r = D.check(name, o.path, wrong_post)
        ok = r is False
        ev.cov["vacuity_witnesses"].append({"mutant_lemma": name, "must_be_refuted": True, "refuted": ok})
        if not ok:
            inconc.append(f"mutant lemma {name} was not refuted (vacuous encoding?)")
    for role, items in sorted(refuted.items()):
        if role in known:
            line = f"KNOWN-FINDING: property={prop} {known[role]['what']}"
            if line not in known_lines:
                known_lines.append(line)
            ev.cov["known_findings"].append({"role": role, "paths": len(items)})
            ev.cov["obligations"] -= len(items)
            continue
        o, model = items[0]
        try:
            rep = replayer(o, model)
        except Exception as e:  # noqa
            inconc.append(f"{role}: replayer failed: {e}")
            continue
        if rep is None:
            inconc.append(f"{role}: refuted by the solver, but no native replay exists for this role")
            continue
        mode, spec, exp = rep
        nat, reproduced = {}, False
        for prof in ("dev", "release"):
            obs = vrl_replay.call(mode, [spec], prof)
            if obs is None:
                nat[prof] = "replayer unavailable"
                continue
            mm = vrl_replay.fn_mismatch(obs[0], exp) if mode == "fn" else __import__("witness").mismatch(obs[0], exp)
            if mm:
                nat[prof] = "REPRODUCED: " + "; ".join(mm)
                reproduced = True
            else:
                nat[prof] = f"not reproduced: {json.dumps(obs[0])[:200]}"
        if reproduced:
            os.makedirs(os.path.join(common.VERIF, "replays"), exist_ok=True)
            h = hashlib.sha1((role + json.dumps(spec, sort_keys=True)).encode()).hexdigest()[:10]
            path = os.path.join(common.VERIF, "replays", f"{prop}-{h}.json")
            with open(path, "w") as f:
                json.dump({"engine": "mirse", "mode": mode, "property": prop, "role": role, "spec": spec, "expect": exp, "native": nat}, f, indent=1)
            viol.append((role, path))
            ev.cov["refuted"].append({"role": role, "replay": path, "native": nat})
        else:
            inconc.append(f"{role}: solver counterexample did not reproduce natively ({nat}); encoding needs attention")
    return viol, inconc, known_lines


# ----------------------------------------------------------------------------- decoding Values from models

def model_value(ex, model, v, max_depth=1):
    """tagged-JSON rendering of a lazy `Value` under a model (scalars exact; other kinds by a representative)"""
    VAL = "value::value::Value"
    d = model.eval(ex.discr_of(v.uid, VAL), model_completion=True).as_signed_long()
    names = {k: n for n, k in ex.types.enum_variants(VAL)}
    vn = names.get(d, "Null")
    if vn == "Integer":
        x = model.eval(ex.child_of(v.uid, VAL, "Integer", 0, "i64").e, model_completion=True).as_signed_long()
        return {"Integer": str(x)}
    if vn == "Float":
        nn = ex.child_of(v.uid, VAL, "Float", 0, "ordered_float::NotNan<f64>")
        f = ex.child_of(nn.uid, nn.ty, None, 0, "f64")
        fv = model.eval(f.e, model_completion=True)
        bits = model.eval(z3.fpToIEEEBV(fv), model_completion=True).as_long()
        return {"Float": "0x%016x" % bits}
    if vn == "Boolean":
        b = model.eval(ex.child_of(v.uid, VAL, "Boolean", 0, "bool").e, model_completion=True)
        return {"Boolean": bool(z3.is_true(b))}
    if vn == "Null":
        return "Null"
    if vn == "Bytes":
        return {"Bytes": "ab"}
    if vn == "Array":
        return {"Array": []}
    if vn == "Object":
        return {"Object": {}}
    return {"Bytes": "other"}
