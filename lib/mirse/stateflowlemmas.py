"""C12 (decisions taken from compile-time constants stay valid) -- state-flow lemma on `Op::type_info`.

`Op::type_info` decides fallibility (the infallible division by a non-zero constant divisor) and short-circuit
typing from `resolve_constant` of its operands.  A constant is only meaningful in the type state in which the
operand is *evaluated*: the lhs in the incoming state, the rhs in the state after the lhs' effects.  The lemma,
over every path of the real MIR body (all opcodes; TypeDef/Kind operations uninterpreted; `apply_type_info`
havocs the state it is given):

    every resolve_constant / apply_type_info / type_info call on the rhs receives a state derived from the
    post-lhs state; every such call on the lhs receives a state that is not.

Found necessary by a seeded defect that read the divisor's constant from the stale pre-lhs state
(`x = 2; (x = 0) / x` accepted as infallible, divides by zero at runtime)."""
import re
from lemma import *
from nodelemmas import Obl

OPAQUE = [r"^TypeDef::\w+(::<.*>)?$", r"^<TypeDef as Deref(Mut)?>::deref(_mut)?$", r"<impl value::kind::Kind>::\w+$", r"^TypeInfo::new::<",
          r"^constant_arithmetic_produces_nan$", r"^<std::option::Option<value::value::Value> as PartialEq>::eq$", r"<impl f64>::is_normal$",
          r"^<NotNan<f64> as Deref>::deref$", r"^Arguments::<'_>::", r"^TypeState::merge$", r"^(state::)?TypeState::merge$"]


def _label(ex, st, child):
    if isinstance(child, Ref):
        return child.cell.lstrip("*") + "".join(f".{p[1]}" for p in child.path)
    if isinstance(child, Lazy):
        return child.uid
    return ex.val_name(st, child)


def _state_name(ex, st, sref):
    c, p = ex.deref_target(st, sref)
    return ex.val_name(st, ex.read(st, c, p))


class StateOracle:
    """apply_type_info(child, &mut state) / type_info(child, &state) / resolve_constant(child, &state)"""

    def __call__(self, ex, st, callee, args, dest_ty, frame, depth):
        kind = callee.split("::")[-1]
        label = _label(ex, st, args[0])
        sname = _state_name(ex, st, args[1])
        n = len(st.trace)
        st.trace.append({"kind": kind, "child": label, "state": sname, "n": n})
        if kind == "apply_type_info":
            c, p = ex.deref_target(st, args[1])
            ex.write(st, c, p, ex.fresh("compiler::state::TypeState", f"after[{label}]#{n}({sname})"))
            return [(st, Outcome("ret", ex.fresh(dest_ty, f"typedef#{n}[{label}]")))]
        if kind == "type_info":
            # TypeInfo { state: <state after child>, result }
            ti = Agg("compiler::state::TypeInfo", {0: ex.fresh("compiler::state::TypeState", f"after[{label}]#{n}({sname})"),
                                                   1: ex.fresh("compiler::type_def::TypeDef", f"typedef#{n}[{label}]")})
            return [(st, Outcome("ret", ti))]
        return [(st, Outcome("ret", ex.fresh(dest_ty, f"rc#{n}[{label}]")))]


def m_clone_state(ex, st, callee, args, dest_ty, frame, depth):
    c, p = ex.deref_target(st, args[0])
    return [(st, Outcome("ret", ex.read(st, c, p)))]


def m_merge(ex, st, callee, args, dest_ty, frame, depth):
    return [(st, Outcome("ret", ex.fresh(dest_ty, f"merge({ex.val_name(st, args[0])},{ex.val_name(st, args[1])})")))]


ORACLES = [(re.compile(r"as Expression>::(apply_type_info|type_info|resolve_constant)$"), StateOracle()),
           (re.compile(r"^<TypeState as Clone>::clone$"), m_clone_state),
           (re.compile(r"TypeState::merge$"), m_merge)]


def obligations(S):
    obls, fns = [], []
    f = S.method("Expression", "Op", "type_info")
    ex = S.executor(oracles=ORACLES, opaque=OPAQUE)
    ex.feas_timeout_ms = 200
    paths = ex.run(f, [ex.fresh("&op::Op", "self"), ex.fresh("&TypeState", "state0")])
    fns.append((f.name, f.text_hash))
    for n_, h in ex.stats["fns_entered"].items():
        fns.append((n_, h))
    vs = {k: n for n, k in S.types.enum_variants("parser::ast::Opcode")}
    LHS, RHS = "self*.0.0.0", "self*.1.0.0"
    seen_rhs = 0
    for pi, p in enumerate(paths):
        op = "?"
        for c in p.st.pc:
            m = re.match(r"^(\d+) == discr\(self\*\.2\)$", str(c).replace("\n", " "))
            if m:
                op = vs.get(int(m.group(1)), m.group(1))
        bad = []
        if p.outcome.kind != "ret":
            bad.append(f"{p.outcome.kind}: {p.outcome.msg}")
        for e in p.st.trace:
            post_lhs = f"after[{LHS}]" in e["state"]
            if e["child"] == RHS:
                seen_rhs += 1
                if not post_lhs:
                    bad.append(f"{e['kind']} on rhs reads state {e['state']} (not derived from the post-lhs state)")
            elif e["child"] == LHS:
                if post_lhs or "after[" in e["state"]:
                    bad.append(f"{e['kind']} on lhs reads state {e['state']} (already changed by an operand)")
            else:
                bad.append(f"unexpected child {e['child']}")
        role = f"C12:Op::type_info[{op}]:operand-constants-are-read-in-the-state-of-evaluation"
        o = Obl(role, {"C12"}, f"{role}#path{pi}", p, z3.BoolVal(not bad), {"problems": bad[:3], "calls": [(e["kind"], e["child"].replace("self*.", ""), e["state"][:60]) for e in p.st.trace][:8]})
        o.ex = ex
        obls.append(o)
    if seen_rhs == 0:
        raise Unencodable("Op::type_info: no call on the rhs was observed (vacuous)")
    return obls, fns


def battery():
    """accepted programs must not fail: an operand that invalidates the other operand's constant"""
    return [
        ({"source": "x = 2\n.r = (x = 0) / x\n", "event": {}}, {"accepted_never_fails": True}),
        ({"source": "x = 2\n.r = { x = 0; 10 } / x\n", "event": {}}, {"accepted_never_fails": True}),
        ({"source": "x = 2.5\n.r = (x = 0.0) / x\n", "event": {}}, {"accepted_never_fails": True}),
        ({"source": "x = 2\n.r = 10 / x\n", "event": {}}, {"outcome": "ok", "event_eq": {"r": {"Float": "0x4014000000000000"}}}),
        ({"source": "f = false\n.r = { f = true; false } || f\n", "event": {}}, {"outcome": "ok", "event_eq": {"r": {"Boolean": True}}, "types_sound": True}),
        ({"source": "f = true\n.r = { f = false; true } && f\n", "event": {}}, {"outcome": "ok", "event_eq": {"r": {"Boolean": False}}, "types_sound": True}),
    ]
