"""Parser for rustc's `-Zunpretty=mir` text (nightly 1.97): functions, locals, basic blocks,
statements, terminators, places, operands, rvalues.  Types are kept as strings.

Anything the parser does not understand is kept as ('unparsed', text) so that the executor can
fail closed ("unencodable") if and only if execution actually reaches it."""
import re


class MirFn:
    def __init__(self, name, params, ret, start_line):
        self.name = name            # text between 'fn ' and the parameter list
        self.params = params        # [(local, type)]
        self.ret = ret
        self.locals = {}            # '_N' -> type
        self.debug = {}             # name -> place text
        self.blocks = {}            # 'bbN' -> Block
        self.start_line = start_line
        self.text_hash = None

    def __repr__(self):
        return f"<MirFn {self.name}>"


class Block:
    def __init__(self, name, cleanup):
        self.name = name
        self.cleanup = cleanup
        self.stmts = []
        self.term = None


# ----------------------------------------------------------------------------- tokenizer helpers

def find_matching(s, i, open_ch, close_ch):
    """s[i] == open_ch; returns index of the matching close_ch (handles nesting of (), [], {}, <> loosely
    and string literals)."""
    depth = 0
    j = i
    n = len(s)
    while j < n:
        c = s[j]
        if c == '"':
            j += 1
            while j < n and s[j] != '"':
                if s[j] == '\\':
                    j += 1
                j += 1
        elif c == open_ch:
            depth += 1
        elif c == close_ch:
            depth -= 1
            if depth == 0:
                return j
        j += 1
    raise ValueError(f"unbalanced {open_ch}{close_ch} in {s[i:i+80]!r}")


def split_top(s, sep=","):
    """Split on sep at nesting depth 0 w.r.t. () [] {} <> and string literals. `->` is not a closer."""
    out, depth, cur = [], 0, []
    i, n = 0, len(s)
    while i < n:
        c = s[i]
        if c == '"':
            j = i + 1
            while j < n and s[j] != '"':
                if s[j] == '\\':
                    j += 1
                j += 1
            cur.append(s[i:j + 1])
            i = j + 1
            continue
        if c in "([{<":
            depth += 1
        elif c in ")]}":
            depth -= 1
        elif c == ">":
            if i > 0 and s[i - 1] == "-":
                pass  # '->'
            elif i > 0 and s[i - 1] == "=":
                pass  # '=>'
            else:
                depth -= 1
        if c == sep and depth == 0:
            out.append("".join(cur).strip())
            cur = []
        else:
            cur.append(c)
        i += 1
    last = "".join(cur).strip()
    if last or out:
        out.append(last)
    return [x for x in out if x != ""]


# ----------------------------------------------------------------------------- places / operands

class Place:
    """base local + list of projections:
       ('deref',), ('field', idx, type), ('downcast', variant_name), ('index', local), ('constindex', n, minlen, from_end),
       ('subslice', a, b, from_end)"""
    __slots__ = ("local", "proj")

    def __init__(self, local, proj=None):
        self.local = local
        self.proj = proj or []

    def __repr__(self):
        return f"Place({self.local}{self.proj})"


def parse_place(s):
    s = s.strip()
    p, rest = _parse_place(s, 0)
    if rest != len(s):
        raise ValueError(f"trailing text in place {s!r} at {rest}")
    return p


def _parse_place(s, i):
    n = len(s)
    if s[i] == "(":
        # (*P)   (P.N: T)   (P as V)
        if s[i + 1] == "*":
            inner, j = _parse_place(s, i + 2)
            assert s[j] == ")", (s, j)
            pl = Place(inner.local, inner.proj + [("deref",)])
            j += 1
        else:
            inner, j = _parse_place(s, i + 1)
            if s.startswith(" as ", j):
                k = find_matching(s, i, "(", ")")
                variant = s[j + 4:k].strip()
                pl = Place(inner.local, inner.proj + [("downcast", variant)])
                j = k + 1
            elif s[j] == ".":
                m = re.match(r"\.(\d+): ", s[j:])
                if not m:
                    raise ValueError(f"bad field projection in {s!r} at {j}")
                k = find_matching(s, i, "(", ")")
                ty = s[j + m.end():k].strip()
                pl = Place(inner.local, inner.proj + [("field", int(m.group(1)), ty)])
                j = k + 1
            else:
                raise ValueError(f"bad place {s!r} at {j}")
    else:
        m = re.match(r"_\d+", s[i:])
        if not m:
            raise ValueError(f"bad place {s!r} at {i}")
        pl = Place(m.group(0))
        j = i + m.end()
    # postfix index projections
    while j < n and s[j] == "[":
        k = find_matching(s, j, "[", "]")
        body = s[j + 1:k]
        m = re.fullmatch(r"(_\d+)", body)
        if m:
            pl = Place(pl.local, pl.proj + [("index", m.group(1))])
        else:
            m = re.fullmatch(r"(-?)(\d+) of (\d+)", body)
            if m:
                pl = Place(pl.local, pl.proj + [("constindex", int(m.group(2)), int(m.group(3)), m.group(1) == "-")])
            else:
                m = re.fullmatch(r"(\d+):(-?)(\d*)", body)
                if m:
                    pl = Place(pl.local, pl.proj + [("subslice", int(m.group(1)), int(m.group(3) or 0), m.group(2) == "-")])
                else:
                    raise ValueError(f"bad index projection {body!r}")
        j = k + 1
    return pl, j


class Operand:
    """kind: 'copy' | 'move' | 'const'; for const: text (literal incl. type suffix) """
    __slots__ = ("kind", "place", "text")

    def __init__(self, kind, place=None, text=None):
        self.kind, self.place, self.text = kind, place, text

    def __repr__(self):
        return f"Op({self.kind} {self.place or self.text})"


def parse_operand(s):
    s = s.strip()
    if s.startswith("no_retag "):
        s = s[9:]
    if s.startswith("copy "):
        return Operand("copy", parse_place(s[5:]))
    if s.startswith("move "):
        return Operand("move", parse_place(s[5:]))
    if s.startswith("const "):
        return Operand("const", text=s[6:].strip())
    # function items / paths used as operands (fn pointers, ZST fn items)
    return Operand("const", text=s)


BINOPS = {"Add", "Sub", "Mul", "Div", "Rem", "BitXor", "BitAnd", "BitOr", "Shl", "Shr", "Eq", "Lt", "Le", "Ne", "Ge", "Gt",
          "Cmp", "Offset", "AddUnchecked", "SubUnchecked", "MulUnchecked", "ShlUnchecked", "ShrUnchecked",
          "AddWithOverflow", "SubWithOverflow", "MulWithOverflow"}
UNOPS = {"Not", "Neg", "PtrMetadata"}


def parse_rvalue(s):
    """returns a tuple describing the rvalue"""
    s = s.strip()
    if s.startswith("no_retag "):
        s = s[9:]
    # references
    for pre, kind in (("&mut ", "refmut"), ("&raw const ", "rawconst"), ("&raw mut ", "rawmut"),
                      ("&fake shallow ", "ref"), ("&", "ref")):
        if s.startswith(pre):
            return ("ref", kind, parse_place(s[len(pre):]))
    m = re.match(r"discriminant\((.*)\)$", s)
    if m:
        return ("discriminant", parse_place(m.group(1)))
    m = re.match(r"(\w+)\((.*)\)$", s)
    if m and m.group(1) in BINOPS:
        a, b = split_top(m.group(2))
        return ("binop", m.group(1), parse_operand(a), parse_operand(b))
    if m and m.group(1) in UNOPS:
        return ("unop", m.group(1), parse_operand(m.group(2)))
    if m and m.group(1) == "Len":
        return ("len", parse_place(m.group(2)))
    if m and m.group(1) == "CopyForDeref":
        return ("use", Operand("copy", parse_place(m.group(2))))
    if m and m.group(1) == "ShallowInitBox":
        return ("unparsed", s)
    # cast:  OPERAND as TYPE (Kind)
    m = re.match(r"(.*) as (.*) \(([A-Za-z]+(?:\(.*\))?)\)$", s)
    if m and (m.group(1).startswith(("copy ", "move ", "const ")) or True):
        try:
            op = parse_operand(m.group(1))
            if op.kind != "const" or m.group(1).startswith("const "):
                return ("cast", m.group(3), op, m.group(2).strip())
        except ValueError:
            pass
    if s.startswith(("copy ", "move ", "const ")):
        try:
            return ("use", parse_operand(s))
        except ValueError:
            return ("unparsed", s)
    # tuple / unit
    if s.startswith("(") and find_matching(s, 0, "(", ")") == len(s) - 1:
        inner = s[1:-1].strip()
        if inner.endswith(","):
            inner = inner[:-1]
        ops = [parse_operand(x) for x in split_top(inner)] if inner else []
        return ("aggregate", "tuple", None, None, ops)
    if s.startswith("[") and s.endswith("]"):
        inner = s[1:-1]
        if ";" in inner and len(split_top(inner, ";")) == 2:
            a, b = split_top(inner, ";")
            return ("repeat", parse_operand(a), b)
        ops = [parse_operand(x) for x in split_top(inner)] if inner.strip() else []
        return ("aggregate", "array", None, None, ops)
    # closure / struct aggregate:  PATH { f: op, .. }
    if s.endswith("}") and " { " in s or s.endswith("{}") or s.endswith("{ }"):
        # find the '{' that opens the field list: the last top-level '{'
        k = s.rfind("}")
        # walk back to matching '{'
        depth, j = 0, k
        while j >= 0:
            if s[j] == "}":
                depth += 1
            elif s[j] == "{":
                depth -= 1
                if depth == 0:
                    break
            j -= 1
        path = s[:j].strip()
        body = s[j + 1:k].strip()
        fields = []
        if body:
            for f in split_top(body):
                fm = re.match(r"([\w\.]+): (.*)$", f)
                if not fm:
                    return ("unparsed", s)
                fields.append((fm.group(1), parse_operand(fm.group(2))))
        if path:
            return ("aggregate", "struct", path, [f for f, _ in fields], [o for _, o in fields])
    # enum/struct tuple-like aggregate: PATH(ops)  or unit-like PATH
    if s.endswith(")"):
        # find the '(' matching the final ')'
        depth, j = 0, len(s) - 1
        while j >= 0:
            if s[j] == ")":
                depth += 1
            elif s[j] == "(":
                depth -= 1
                if depth == 0:
                    break
            j -= 1
        path = s[:j].strip()
        if path and re.match(r"[\w<\[\(&{]", path):
            inner = s[j + 1:-1]
            try:
                ops = [parse_operand(x) for x in split_top(inner)] if inner.strip() else []
                return ("aggregate", "adt", path, None, ops)
            except ValueError:
                return ("unparsed", s)
    if re.match(r"[\w<]", s) and "(" not in s.split("::")[-1]:
        return ("aggregate", "adt", s, None, [])
    return ("unparsed", s)


# ----------------------------------------------------------------------------- statements / terminators

def parse_targets(s):
    """'[return: bb1, unwind: bb2]' | 'bb3' | 'unwind continue' -> dict"""
    s = s.strip()
    d = {}
    if s.startswith("["):
        for part in split_top(s[1:-1]):
            k, _, v = part.partition(":")
            d[k.strip()] = v.strip()
    elif s.startswith("bb"):
        d["return"] = s
    else:
        d["unwind"] = s
    return d


def parse_statement(line):
    s = line.strip()
    assert s.endswith(";"), s
    s = s[:-1]
    if s in ("return", "unreachable", "resume", "nop") or s.startswith(("StorageLive", "StorageDead", "FakeRead", "PlaceMention",
                                                                        "AscribeUserType", "Coverage", "ConstEvalCounter", "Retag", "Deinit", "BackwardIncompatibleDropHint")):
        if s in ("return", "unreachable", "resume"):
            return ("term", s)
        return ("nop",)
    if s.startswith("goto -> "):
        return ("term", "goto", s[8:].strip())
    if s.startswith("switchInt("):
        k = find_matching(s, 9, "(", ")")
        op = parse_operand(s[10:k])
        rest = s[k + 1:].strip()
        assert rest.startswith("-> ["), s
        targets = []
        for part in split_top(rest[4:-1]):
            v, _, bb = part.partition(":")
            targets.append((v.strip(), bb.strip()))
        return ("term", "switch", op, targets)
    if s.startswith("drop("):
        k = find_matching(s, 4, "(", ")")
        pl = s[5:k]
        rest = s[k + 1:].strip()
        t = parse_targets(rest[3:]) if rest.startswith("->") else {}
        return ("term", "drop", pl, t)
    if s.startswith("assert("):
        k = find_matching(s, 6, "(", ")")
        args = split_top(s[7:k])
        cond = args[0]
        expected = True
        if cond.startswith("!"):
            expected = False
            cond = cond[1:]
        rest = s[k + 1:].strip()
        t = parse_targets(rest[3:]) if rest.startswith("->") else {}
        return ("term", "assert", parse_operand(cond), expected, args[1] if len(args) > 1 else "", t)
    if s.startswith(("falseEdge", "falseUnwind")):
        m = re.search(r"real: (bb\d+)", s)
        return ("term", "goto", m.group(1))
    if s.startswith("discriminant("):
        m = re.match(r"discriminant\((.*)\) = (\d+)$", s)
        if m:
            return ("setdiscr", parse_place(m.group(1)), int(m.group(2)))
    if s.startswith("assume("):
        return ("nop",)
    # assignment or call:  PLACE = RHS [-> targets]
    # find top-level ' = '
    idx = _find_assign(s)
    if idx < 0:
        # call without destination?  e.g. `_5 = f() -> ...` always has dest; diverging: `_78 = panic(..) -> bb66`
        return ("unparsed", s)
    lhs = s[:idx]
    rhs = s[idx + 3:]
    # call?  RHS ends with '-> [..]' or '-> bbN' or '-> unwind ...'
    arrow = _find_call_arrow(rhs)
    if arrow >= 0:
        callpart = rhs[:arrow].rstrip()
        targets = parse_targets(rhs[arrow + 3:])
        # callee(args): args = last balanced paren group
        assert callpart.endswith(")"), s
        depth, j = 0, len(callpart) - 1
        while j >= 0:
            if callpart[j] == ")":
                depth += 1
            elif callpart[j] == "(":
                depth -= 1
                if depth == 0:
                    break
            j -= 1
        callee = callpart[:j].strip()
        argtext = callpart[j + 1:-1]
        args = [parse_operand(a) for a in split_top(argtext)] if argtext.strip() else []
        return ("term", "call", parse_place(lhs), callee, args, targets)
    return ("assign", parse_place(lhs), parse_rvalue(rhs))


def _find_assign(s):
    depth = 0
    for i, c in enumerate(s):
        if c in "([{":
            depth += 1
        elif c in ")]}":
            depth -= 1
        elif depth == 0 and s.startswith(" = ", i):
            return i
    return -1


def _find_call_arrow(s):
    """index of the top-level ' -> ' that introduces the call targets (the last one at depth 0 outside <>)"""
    depth = 0
    last = -1
    i, n = 0, len(s)
    while i < n:
        c = s[i]
        if c == '"':
            j = i + 1
            while j < n and s[j] != '"':
                if s[j] == "\\":
                    j += 1
                j += 1
            i = j + 1
            continue
        if c in "([{<":
            depth += 1
        elif c in ")]}":
            depth -= 1
        elif c == ">":
            if s[i - 1] not in "-=":
                depth -= 1
        if depth == 0 and s.startswith(" -> ", i):
            tail = s[i + 4:]
            if tail.startswith(("[", "bb", "unwind")):
                last = i
        i += 1
    return last


HEADER = re.compile(r"^fn (.*) \{$")


def parse_header(line):
    m = HEADER.match(line)
    body = m.group(1)
    # parameter list starts at the first "(_1: " or "()" at depth 0 w.r.t. <>, {}
    depth = 0
    start = -1
    i, n = 0, len(body)
    while i < n:
        c = body[i]
        if c in "<{[":
            depth += 1
        elif c in "}]":
            depth -= 1
        elif c == ">" and body[i - 1] not in "-=":
            depth -= 1
        elif c == "(" and depth == 0:
            start = i
            break
        i += 1
    if start < 0:
        return None
    end = find_matching(body, start, "(", ")")
    name = body[:start]
    ptxt = body[start + 1:end]
    params = []
    for p in split_top(ptxt):
        pm = re.match(r"(_\d+): (.*)$", p)
        if pm:
            params.append((pm.group(1), pm.group(2)))
    ret = body[end + 1:].strip()
    if ret.startswith("->"):
        ret = ret[2:].strip()
    return name, params, ret


def parse_mir(path, want=None):
    """Parse the dump; if `want` (a predicate on the header name) is given, bodies of other functions
    are skipped (only their headers are indexed)."""
    fns = []
    cur = None
    blk = None
    import hashlib
    with open(path, errors="replace") as f:
        lines = f.read().split("\n")
    i, n = 0, len(lines)
    while i < n:
        line = lines[i]
        cm = re.match(r"^const ([\w:]+): (.*?) = const (.+);$", line) if line.startswith("const ") else None
        if cm and not cm.group(1).endswith("::_"):
            # a named constant with a literal value (`const MAX: f64 = const 9007199254740992f64;`)
            cur = MirFn(cm.group(1), [], cm.group(2), i + 1)
            cur.is_named_const = True
            cur.const_literal = cm.group(3)
            cur.text_hash = hashlib.sha256(line.encode()).hexdigest()[:16]
            cur._body = None
            fns.append(cur)
            i += 1
            continue
        pm = re.match(r"^const (.*::promoted\[\d+\]): (.*) = \{$", line) if line.startswith("const ") else None
        nm = re.match(r"^const ([\w:]+): (.*) = \{$", line) if (line.startswith("const ") and not pm) else None
        if nm and not nm.group(1).endswith("::_"):
            # a named constant computed by a body (`const TOL: f64 = { _0 = Mul(const 4f64, const EPSILON); }`)
            cur = MirFn(nm.group(1), [], nm.group(2), i + 1)
            cur.is_named_const = True
            cur.const_literal = None
            fns.append(cur)
            j = i + 1
            while j < n and lines[j] != "}":
                j += 1
            body = lines[i:j + 1]
            cur.text_hash = hashlib.sha256("\n".join(body).encode()).hexdigest()[:16]
            cur._body = body
            i = j + 1
            continue
        if pm:
            # a promoted constant (`&CONST` lifted by rustc): a parameterless body
            cur = MirFn(pm.group(1), [], pm.group(2), i + 1)
            cur.is_promoted = True
            fns.append(cur)
            j = i + 1
            while j < n and lines[j] != "}":
                j += 1
            body = lines[i:j + 1]
            cur.text_hash = hashlib.sha256("\n".join(body).encode()).hexdigest()[:16]
            cur._body = body
            i = j + 1
            continue
        if line.startswith("fn ") and line.endswith("{"):
            h = parse_header(line)
            if h:
                cur = MirFn(h[0], h[1], h[2], i + 1)
                fns.append(cur)
                j = i + 1
                while j < n and lines[j] != "}":
                    j += 1
                body = lines[i:j + 1]
                cur.text_hash = hashlib.sha256("\n".join(body).encode()).hexdigest()[:16]
                cur._body = body if (want is None or want(cur.name)) else None
                i = j + 1
                continue
        i += 1
    return fns


def parse_body(fn):
    """Populate locals/blocks of a MirFn from its saved text (lazy)."""
    if fn.blocks or fn._body is None:
        return fn
    blk = None
    for line in fn._body[1:]:
        s = line.strip()
        if not s or s == "}":
            continue
        m = re.match(r"let (?:mut )?(_\d+): (.*);$", s)
        if m:
            fn.locals[m.group(1)] = m.group(2)
            continue
        m = re.match(r"debug (\S+) => (.*);$", s)
        if m:
            fn.debug[m.group(1)] = m.group(2)
            continue
        if s.startswith("scope ") or s.startswith("//"):
            continue
        m = re.match(r"(bb\d+)( \(cleanup\))?: \{$", s)
        if m:
            blk = Block(m.group(1), bool(m.group(2)))
            fn.blocks[blk.name] = blk
            continue
        if blk is None:
            continue
        if not s.endswith(";"):
            continue
        try:
            st = parse_statement(s)
        except Exception as e:  # noqa
            st = ("unparsed", s, str(e))
        if st[0] == "term":
            blk.term = st
        else:
            blk.stmts.append(st)
    for p, t in fn.params:
        fn.locals[p] = t
    fn.locals.setdefault("_0", fn.ret)
    return fn
