"""Type knowledge for the symbolic executor.

 * enum variant order / struct field order are read from /repo's *source* on every run
   (so a reordered enum is picked up), plus a small built-in table for std types.
 * everything else about a type is taken from the MIR text itself (projection type annotations)."""
import os, re

PRIM_INT = {"i8": (8, True), "i16": (16, True), "i32": (32, True), "i64": (64, True), "i128": (128, True),
            "isize": (64, True), "u8": (8, False), "u16": (16, False), "u32": (32, False), "u64": (64, False),
            "u128": (128, False), "usize": (64, False), "char": (32, False)}

STD_ENUMS = {
    "Result": ["Ok", "Err"],
    "Option": ["None", "Some"],
    "ControlFlow": ["Continue", "Break"],
    "Cow": ["Borrowed", "Owned"],
    "Bound": ["Included", "Excluded", "Unbounded"],
    "Ordering": ["Less", "Equal", "Greater"],   # discriminants -1,0,1 handled specially
    "Infallible": [],
}


def strip_generics(t):
    """'a::b::Name<X, Y>' -> 'a::b::Name'"""
    t = t.strip()
    depth = 0
    for i, c in enumerate(t):
        if c == "<":
            return t[:i]
    return t


def last_seg(t):
    t = strip_generics(t)
    return t.split("::")[-1]


def generic_args(t):
    """'Result<A, B<C>>' -> ['A', 'B<C>'] (top-level)"""
    from mirparse import split_top
    t = t.strip()
    i = t.find("<")
    if i < 0 or not t.endswith(">"):
        return []
    return split_top(t[i + 1:-1])


def is_ref(t):
    t = t.strip()
    return t.startswith("&") or t.startswith("*const ") or t.startswith("*mut ")


def pointee(t):
    t = t.strip()
    if t.startswith("&"):
        t = t[1:].lstrip()
        if t.startswith("'"):
            t = t.split(" ", 1)[1] if " " in t else t
        if t.startswith("mut "):
            t = t[4:]
        return t.strip()
    if t.startswith("*const "):
        return t[7:].strip()
    if t.startswith("*mut "):
        return t[5:].strip()
    for w in ("Box", "NonNull", "Unique"):
        if last_seg(t) == w:
            ga = generic_args(t)
            if ga:
                return ga[0]
    return None


class SourceTypes:
    def __init__(self, repo):
        self.repo = repo
        self.enums = {}     # last_seg -> [(module_path, [variant names], file)]
        self.structs = {}   # last_seg -> [(module_path, [field names], file)]
        self.impls = {}     # (file, line) -> (trait_last_seg|None, type_last_seg)
        self.variant_fields_tbl = {}   # (module, enum, variant) -> [field names]
        self.derives = {}              # (file, line, col) -> (trait, type)
        self._scan()

    def _scan(self):
        root = os.path.join(self.repo, "src")
        for dp, dn, fnames in os.walk(root):
            for fn in fnames:
                if not fn.endswith(".rs"):
                    continue
                p = os.path.join(dp, fn)
                rel = os.path.relpath(p, self.repo)
                try:
                    src = open(p, encoding="utf-8").read()
                except Exception:
                    continue
                mod = rel[len("src/"):-3].replace("/", "::")
                if mod.endswith("::mod"):
                    mod = mod[:-5]
                self._scan_file(src, mod, rel)

    @staticmethod
    def _strip_comments(src):
        src = re.sub(r"//[^\n]*", "", src)
        src = re.sub(r"/\*.*?\*/", "", src, flags=re.S)
        return src

    def _scan_file(self, src, mod, rel):
        # impl headers by line number (comments kept so that line numbers stay right)
        for m in re.finditer(r"^[ \t]*(?:unsafe )?impl\b([^{;]*)\{", src, re.M):
            line = src.count("\n", 0, m.start()) + 1
            hdr = " ".join(m.group(1).split())
            hdr = re.sub(r"\bwhere\b.*$", "", hdr).strip()
            # drop leading generics <...>
            if hdr.startswith("<"):
                depth = 0
                for i, c in enumerate(hdr):
                    if c == "<":
                        depth += 1
                    elif c == ">" and hdr[i - 1] != "-":
                        depth -= 1
                        if depth == 0:
                            hdr = hdr[i + 1:].strip()
                            break
            if " for " in hdr:
                tr, ty = hdr.split(" for ", 1)
                self.impls[(rel, line)] = (last_seg(tr.strip()), last_seg(ty.strip().lstrip("&").strip()))
            else:
                self.impls[(rel, line)] = (None, last_seg(hdr.lstrip("&").strip()))
        # #[derive(..)] lines: rustc names a derived impl by the position of the trait name inside the attribute
        lines = src.split("\n")
        for li, text in enumerate(lines):
            dm = re.search(r"#\[derive\((.*?)\)\]", text)
            if not dm:
                continue
            tyname = None
            for nxt in lines[li + 1: li + 12]:
                tm = re.match(r"\s*(?:pub(?:\([^)]*\))?\s+)?(?:struct|enum|union)\s+(\w+)", nxt)
                if tm:
                    tyname = tm.group(1)
                    break
            if not tyname:
                continue
            for m2 in re.finditer(r"[\w:]+", dm.group(1)):
                col = dm.start(1) + m2.start() + 1
                self.derives[(rel, li + 1, col)] = (m2.group(0).split("::")[-1], tyname)
        clean = self._strip_comments(src)
        for m in re.finditer(r"\b(enum|struct)\s+(\w+)\s*(<[^{;(]*>)?\s*(where[^{;]*)?([\{\(;])", clean):
            kind, name, opener = m.group(1), m.group(2), m.group(5)
            if opener == ";":
                if kind == "struct":
                    self.structs.setdefault(name, []).append((mod, [], rel))
                continue
            close = {"{": "}", "(": ")"}[opener]
            i = m.end() - 1
            depth = 0
            j = i
            while j < len(clean):
                c = clean[j]
                if c == opener:
                    depth += 1
                elif c == close:
                    depth -= 1
                    if depth == 0:
                        break
                j += 1
            body = self._strip_attrs(clean[i + 1:j])
            items = self._split_items(body)
            if kind == "enum":
                variants = []
                for it in items:
                    it = re.sub(r"#\s*\[[^\]]*\]", "", it, flags=re.S).strip()   # attributes (single-level)
                    vm = re.match(r"(\w+)", it)
                    if vm:
                        dm = re.search(r"=\s*(-?\d+)\s*$", it)
                        variants.append((vm.group(1), int(dm.group(1)) if dm else None))
                        rest = it[vm.end():].strip()
                        vf = []
                        if rest.startswith("{"):
                            for fit in self._split_items(rest[1:rest.rfind("}")]):
                                fit = re.sub(r"#\s*\[[^\]]*\]", "", fit, flags=re.S).strip()
                                fm = re.match(r"(?:pub(?:\([^)]*\))?\s+)?(\w+)\s*:", fit)
                                if fm:
                                    vf.append(fm.group(1))
                        elif rest.startswith("("):
                            vf = [str(k) for k in range(len(self._split_items(rest[1:rest.rfind(")")])))]
                        self.variant_fields_tbl[(mod, name, vm.group(1))] = vf
                self.enums.setdefault(name, []).append((mod, variants, rel))
            else:
                fields = []
                if opener == "{":
                    for it in items:
                        it = re.sub(r"#\s*\[[^\]]*\]", "", it, flags=re.S).strip()
                        fm = re.match(r"(?:pub(?:\([^)]*\))?\s+)?(\w+)\s*:", it)
                        if fm:
                            fields.append(fm.group(1))
                else:
                    fields = [str(k) for k in range(len(items))]
                self.structs.setdefault(name, []).append((mod, fields, rel))

    @staticmethod
    def _strip_attrs(body):
        """remove #[...] attributes (may contain strings with brackets / angle brackets)"""
        out, i, n = [], 0, len(body)
        while i < n:
            if body.startswith("#[", i) or body.startswith("#![", i):
                j = body.index("[", i)
                depth = 0
                while j < n:
                    c = body[j]
                    if c == '"':
                        j += 1
                        while j < n and body[j] != '"':
                            if body[j] == "\\":
                                j += 1
                            j += 1
                    elif c == "[":
                        depth += 1
                    elif c == "]":
                        depth -= 1
                        if depth == 0:
                            break
                    j += 1
                i = j + 1
                continue
            out.append(body[i])
            i += 1
        return "".join(out)

    @staticmethod
    def _split_items(body):
        out, depth, cur = [], 0, []
        prev = ""
        for c in body:
            if c in "([{<":
                depth += 1
            elif c in ")]}":
                depth -= 1
            elif c == ">" and prev not in "-=":
                depth -= 1
            if c == "," and depth == 0:
                out.append("".join(cur))
                cur = []
            else:
                cur.append(c)
            prev = c
        if "".join(cur).strip():
            out.append("".join(cur))
        return [o for o in out if o.strip()]

    def _pick(self, table, ty, hint_mod=None):
        name = last_seg(ty)
        cands = table.get(name)
        if not cands:
            return None
        if len(cands) == 1:
            return cands[0]
        path = strip_generics(ty)
        segs = path.split("::")[:-1]
        best, score = None, -1
        for c in cands:
            cm = c[0].split("::")
            # count matching trailing module segments
            s = 0
            for a, b in zip(reversed(segs), reversed(cm)):
                if a == b:
                    s += 1
                else:
                    break
            if hint_mod and s == 0:
                # prefer the candidate whose module shares the longest leading path with the function under analysis
                hm = hint_mod.split("::")
                common = 0
                for a, b in zip(hm, cm):
                    if a == b:
                        common += 1
                    else:
                        break
                s = common / 100.0
            if s > score:
                best, score = c, s
        # ambiguous and no information: refuse
        if score <= 0:
            return None
        return best

    def enum_variants(self, ty, hint_mod=None):
        """-> list of (name, discriminant) or None if ty is not a known enum"""
        name = last_seg(ty)
        if name in STD_ENUMS and (strip_generics(ty).startswith(("std::", "core::")) or "::" not in strip_generics(ty)
                                  ) and name not in self.enums:
            vs = STD_ENUMS[name]
            if name == "Ordering":
                return [("Less", -1), ("Equal", 0), ("Greater", 1)]
            return [(v, i) for i, v in enumerate(vs)]
        if name in STD_ENUMS and strip_generics(ty).startswith(("std::", "core::")):
            vs = STD_ENUMS[name]
            return [(v, i) for i, v in enumerate(vs)]
        c = self._pick(self.enums, ty, hint_mod)
        if not c:
            if name in STD_ENUMS:
                return [(v, i) for i, v in enumerate(STD_ENUMS[name])]
            return None
        out, nxt = [], 0
        for v, d in c[1]:
            if d is not None:
                nxt = d
            out.append((v, nxt))
            nxt += 1
        return out

    def struct_fields(self, ty, hint_mod=None):
        c = self._pick(self.structs, ty, hint_mod)
        return c[1] if c else None


def _variant_fields(self, ty, variant, hint_mod=None):
    c = self._pick(self.enums, ty, hint_mod)
    if not c:
        return None
    return self.variant_fields_tbl.get((c[0], last_seg(ty), variant))


SourceTypes.variant_fields = _variant_fields
