"""C18 -- one level of the recursive `crud::remove` driver (src/value/value/crud/remove.rs), generic over the collection.

    remove(coll, key, path_iter, prune):
      * path exhausted            -> exactly one `remove_value(key)` on this collection, its value is returned
      * next segment, child found -> one recursive `remove` on the child; when it found nothing (None) this level
                                     changes nothing and returns None; when it removed something, this level
                                     removes `key` exactly when `prune` and the child reported itself empty
      * child missing / of the wrong type -> nothing is removed, None

The collection's own operations (`get_mut_value`, `remove_value`, `is_empty_collection`), the path iterator and the
recursive call are oracles that answer arbitrarily and are recorded; by induction over the path the frame condition
"a removal that finds nothing leaves the value unchanged" follows for every depth.  Found necessary by a seeded
defect that pruned already-empty containers on the way to a path that does not exist."""
import re
from lemma import *
from nodelemmas import Obl
from stdlemmas import Recorder

VAL = "value::value::Value"


def m_get_mut_value(ex, st, callee, args, dest_ty, frame, depth):
    st.trace.append({"kind": "get_mut_value", "key": ex.val_name(st, args[1])})
    out = []
    s_none = st.fork()
    out.append((s_none, Outcome("ret", Enum(dest_ty, bv64(0), {}))))
    st.heap["child"] = ex.fresh(VAL, "child")
    out.append((st, Outcome("ret", ex.mk_enum(dest_ty, "Some", [Ref("&mut " + VAL, "child", ())]))))
    return out


def m_iter_next(ex, st, callee, args, dest_ty, frame, depth):
    n = len([e for e in st.trace if e["kind"] == "next"])
    st.trace.append({"kind": "next"})
    return [(st, Outcome("ret", ex.fresh(dest_ty, f"segment{n}")))]


ORACLES = [
    (re.compile(r"^<T as ValueCollection>::get_mut_value$"), m_get_mut_value),
    (re.compile(r"^<T as ValueCollection>::remove_value$"), Recorder("remove_value")),
    (re.compile(r"^value::value::crud::remove::remove::<"), Recorder("recurse")),
    (re.compile(r"Iterator<Item = BorrowedSegment<'a>> as Iterator>::next$|BorrowedSegment<'a>> as Iterator>::next$"), m_iter_next),
]
OPAQUE = [r"^<.* as ValueCollection>::is_empty_collection$", r"^<Cow<'_, str> as AsRef<str>>::as_ref$"]


def obligations(S):
    obls, fns = [], []
    cands = [f for f in S.prog.free.get("remove", []) if f.name.endswith("crud::remove::remove")]
    if len(cands) != 1:
        raise Unencodable(f"crud::remove::remove: {len(cands)} bodies")
    f = cands[0]
    fns.append((f.name, f.text_hash))
    ex = S.executor(oracles=ORACLES, opaque=OPAQUE)
    prune = z3.Bool("prune")
    paths = ex.run(f, [ex.fresh("&mut T", "coll"), ex.fresh("&K", "key"), ex.fresh("impl Iterator", "path_iter"), Prim("bool", prune)])
    for n_, h in ex.stats["fns_entered"].items():
        fns.append((n_, h))
    seen = {"terminal": 0, "recursed": 0}
    for pi, p in enumerate(paths):
        def add(tag, post, detail=None):
            role = f"C18:crud::remove:{tag}"
            o = Obl(role, {"C18"}, f"{role}#path{pi}", p, post, detail)
            o.ex = ex
            obls.append(o)
        if p.outcome.kind != "ret":
            o = Obl(f"C04:crud::remove:{p.outcome.kind}", {"C04", "C18"}, f"C04:crud::remove:{p.outcome.kind}#path{pi}", p, z3.BoolVal(False), {"msg": p.outcome.msg})
            o.ex = ex
            obls.append(o)
            continue
        tr = p.st.trace
        rec = [e for e in tr if e["kind"] == "recurse"]
        rem = [e for e in tr if e["kind"] == "remove_value"]
        v = V(ex, p.st)
        r = p.outcome.value
        rty = f.ret
        detail = {"steps": [e["kind"] for e in tr], "result": ex.val_name(p.st, r)[:140]}
        if not rec:
            seg = p.st.simp(ex.discr_of("segment0", "std::option::Option<path::borrowed::BorrowedSegment<'_>>"))
            if z3.is_bv_value(seg) and seg.as_long() == 0:
                seen["terminal"] += 1
                ok = len(rem) == 1 and rem[0]["names"][1] == "key"
                add("path-exhausted-removes-exactly-this-key", z3.BoolVal(bool(ok)), detail)
            else:
                add("missing-or-mismatching-child-removes-nothing", z3.And(z3.BoolVal(len(rem) == 0), v.is_variant(r, "None", rty)), detail)
            continue
        seen["recursed"] += 1
        if len(rec) != 1:
            add("recursion-happens-once", z3.BoolVal(False), detail)
            continue
        # the recorded result of the recursive call
        rr = [t for t in (e.get("result") for e in rec) if t is not None]
        rname = None
        for c in p.st.pc:
            m = re.search(r"discr\((recurse#\d+\([^)]*(?:\([^)]*\)[^)]*)*\))\)", str(c).replace("\n", " "))
            if m:
                rname = m.group(1)
        found = None
        for c in p.st.pc:
            sc = str(c).replace("\n", " ")
            if "discr(recurse#" in sc:
                found = sc.startswith("1 ==") or sc.startswith("Not(0 ==")
                if sc.startswith("0 =="):
                    found = False
        if found is False:
            add("nothing-found-below-changes-nothing", z3.And(z3.BoolVal(len(rem) == 0), v.is_variant(r, "None", rty)), detail)
        elif found is True:
            # removal here exactly when prune and the child reported itself empty (field 1 of the tuple)
            emp = [str(c).replace("\n", " ") for c in p.st.pc if ".Some.0.1" in str(c)]
            def positive(c):
                k = 0
                while c.startswith("Not(") and c.endswith(")"):
                    c, k = c[4:-1], k + 1
                return k % 2 == 0
            empty_true = any(positive(c) for c in emp) if emp else None
            pcs_ = [str(c).replace("\n", " ") for c in p.st.pc]
            pr = None
            for c in pcs_:
                k = 0
                while c.startswith("Not(") and c.endswith(")"):
                    c, k = c[4:-1], k + 1
                if c == "prune":
                    pr = (k % 2 == 0)
            want_remove = pr is True and empty_true is True
            ok = (len(rem) == 1 and rem[0]["names"][1] == "key") if want_remove else len(rem) == 0
            add("prunes-exactly-when-asked-and-the-child-became-empty", z3.BoolVal(bool(ok)), {**detail, "prune": str(pr), "child_empty_atoms": emp[:2]})
        else:
            add("recursive-result-is-inspected", z3.BoolVal(False), detail)
    if not seen["terminal"] or not seen["recursed"]:
        raise Unencodable(f"crud::remove: paths seen {seen} (vacuous)")
    return obls, sorted(set(fns))


def replayer(o, model):
    src = ('.v = {"a": {}, "b": 1, "list": [[], 7], "n": {"m": {"k": 1}}}\n'
           '.r1 = del(.v.a.missing, compact: true)\n.r2 = del(.v.list[0][3], compact: true)\n.r3 = del(.v.n.m.k, compact: true)\n.r4 = del(.v.zz.y, compact: true)\n')
    want = {"v": {"Object": {"a": {"Object": {}}, "b": {"Integer": "1"}, "list": {"Array": [{"Array": []}, {"Integer": "7"}]}}},
            "r1": "Null", "r2": "Null", "r3": {"Integer": "1"}, "r4": "Null"}
    return "run", {"source": src, "event": {}}, {"outcome": "ok", "event_eq": want}
