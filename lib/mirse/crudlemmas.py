"""C18 -- one level of the recursive `crud::remove` driver (src/value/value/crud/remove.rs), generic over the collection.

    remove(coll, key, path_iter, prune):
      * path exhausted            -> exactly one `remove_value(key)` on this collection, its value is returned
      * next segment, child found -> one recursive `remove` on the child; when it found nothing (None) this level
                                     changes nothing and returns None; when it removed something, this level
                                     removes `key` exactly when `prune` and the child reported itself empty
      * child missing / of the wrong type -> nothing is removed, None

The collection's own operations (`get_mut_value`, `remove_value`, `is_empty_collection`), the path iterator and the
recursive call are oracles that answer arbitrarily and are recorded; by induction over the path the frame condition
"a removal that finds nothing leaves the value unchanged" follows for every depth.  Found necessary by a seeded
defect that pruned already-empty containers on the way to a path that does not exist."""
import re
from lemma import *
from nodelemmas import Obl
from stdlemmas import Recorder

VAL = "value::value::Value"


def m_get_mut_value(ex, st, callee, args, dest_ty, frame, depth):
    st.trace.append({"kind": "get_mut_value", "key": ex.val_name(st, args[1])})
    out = []
    s_none = st.fork()
    out.append((s_none, Outcome("ret", Enum(dest_ty, bv64(0), {}))))
    st.heap["child"] = ex.fresh(VAL, "child")
    out.append((st, Outcome("ret", ex.mk_enum(dest_ty, "Some", [Ref("&mut " + VAL, "child", ())]))))
    return out


def m_iter_next(ex, st, callee, args, dest_ty, frame, depth):
    n = len([e for e in st.trace if e["kind"] == "next"])
    st.trace.append({"kind": "next"})
    return [(st, Outcome("ret", ex.fresh(dest_ty, f"segment{n}")))]


ORACLES = [
    (re.compile(r"^<T as ValueCollection>::get_mut_value$"), m_get_mut_value),
    (re.compile(r"^<T as ValueCollection>::remove_value$"), Recorder("remove_value")),
    (re.compile(r"^value::value::crud::remove::remove::<"), Recorder("recurse")),
    (re.compile(r"Iterator<Item = BorrowedSegment<'a>> as Iterator>::next$|BorrowedSegment<'a>> as Iterator>::next$"), m_iter_next),
]
OPAQUE = [r"^<.* as ValueCollection>::is_empty_collection$", r"^<Cow<'_, str> as AsRef<str>>::as_ref$"]


def obligations(S):
    obls, fns = [], []
    cands = [f for f in S.prog.free.get("remove", []) if f.name.endswith("crud::remove::remove")]
    if len(cands) != 1:
        raise Unencodable(f"crud::remove::remove: {len(cands)} bodies")
    f = cands[0]
    fns.append((f.name, f.text_hash))
    ex = S.executor(oracles=ORACLES, opaque=OPAQUE)
    prune = z3.Bool("prune")
    paths = ex.run(f, [ex.fresh("&mut T", "coll"), ex.fresh("&K", "key"), ex.fresh("impl Iterator", "path_iter"), Prim("bool", prune)])
    for n_, h in ex.stats["fns_entered"].items():
        fns.append((n_, h))
    seen = {"terminal": 0, "recursed": 0}
    for pi, p in enumerate(paths):
        def add(tag, post, detail=None):
            role = f"C18:crud::remove:{tag}"
            o = Obl(role, {"C18"}, f"{role}#path{pi}", p, post, detail)
            o.ex = ex
            obls.append(o)
        if p.outcome.kind != "ret":
            o = Obl(f"C04:crud::remove:{p.outcome.kind}", {"C04", "C18"}, f"C04:crud::remove:{p.outcome.kind}#path{pi}", p, z3.BoolVal(False), {"msg": p.outcome.msg})
            o.ex = ex
            obls.append(o)
            continue
        tr = p.st.trace
        rec = [e for e in tr if e["kind"] == "recurse"]
        rem = [e for e in tr if e["kind"] == "remove_value"]
        v = V(ex, p.st)
        r = p.outcome.value
        rty = f.ret
        detail = {"steps": [e["kind"] for e in tr], "result": ex.val_name(p.st, r)[:140]}
        if not rec:
            seg = p.st.simp(ex.discr_of("segment0", "std::option::Option<path::borrowed::BorrowedSegment<'_>>"))
            if z3.is_bv_value(seg) and seg.as_long() == 0:
                seen["terminal"] += 1
                ok = len(rem) == 1 and rem[0]["names"][1] == "key"
                add("path-exhausted-removes-exactly-this-key", z3.BoolVal(bool(ok)), detail)
            else:
                add("missing-or-mismatching-child-removes-nothing", z3.And(z3.BoolVal(len(rem) == 0), v.is_variant(r, "None", rty)), detail)
            continue
        seen["recursed"] += 1
        if len(rec) != 1:
            add("recursion-happens-once", z3.BoolVal(False), detail)
            continue
        # the recorded result of the recursive call
        rr = [t for t in (e.get("result") for e in rec) if t is not None]
        rname = None
        for c in p.st.pc:
            m = re.search(r"discr\((recurse#\d+\([^)]*(?:\([^)]*\)[^)]*)*\))\)", str(c).replace("\n", " "))
            if m:
                rname = m.group(1)
        found = None
        for c in p.st.pc:
            sc = str(c).replace("\n", " ")
            if "discr(recurse#" in sc:
                found = sc.startswith("1 ==") or sc.startswith("Not(0 ==")
                if sc.startswith("0 =="):
                    found = False
        if found is False:
            add("nothing-found-below-changes-nothing", z3.And(z3.BoolVal(len(rem) == 0), v.is_variant(r, "None", rty)), detail)
        elif found is True:
            # removal here exactly when prune and the child reported itself empty (field 1 of the tuple)
            emp = [str(c).replace("\n", " ") for c in p.st.pc if ".Some.0.1" in str(c)]
            def positive(c):
                k = 0
                while c.startswith("Not(") and c.endswith(")"):
                    c, k = c[4:-1], k + 1
                return k % 2 == 0
            empty_true = any(positive(c) for c in emp) if emp else None
            pcs_ = [str(c).replace("\n", " ") for c in p.st.pc]
            pr = None
            for c in pcs_:
                k = 0
                while c.startswith("Not(") and c.endswith(")"):
                    c, k = c[4:-1], k + 1
                if c == "prune":
                    pr = (k % 2 == 0)
            want_remove = pr is True and empty_true is True
            ok = (len(rem) == 1 and rem[0]["names"][1] == "key") if want_remove else len(rem) == 0
            add("prunes-exactly-when-asked-and-the-child-became-empty", z3.BoolVal(bool(ok)), {**detail, "prune": str(pr), "child_empty_atoms": emp[:2]})
        else:
            add("recursive-result-is-inspected", z3.BoolVal(False), detail)
    if not seen["terminal"] or not seen["recursed"]:
        raise Unencodable(f"crud::remove: paths seen {seen} (vacuous)")
    return obls, sorted(set(fns))


def replayer(o, model):
    src = ('.v = {"a": {}, "b": 1, "list": [[], 7], "n": {"m": {"k": 1}}}\n'
           '.r1 = del(.v.a.missing, compact: true)\n.r2 = del(.v.list[0][3], compact: true)\n.r3 = del(.v.n.m.k, compact: true)\n.r4 = del(.v.zz.y, compact: true)\n')
    want = {"v": {"Object": {"a": {"Object": {}}, "b": {"Integer": "1"}, "list": {"Array": [{"Array": []}, {"Integer": "7"}]}}},
            "r1": "Null", "r2": "Null", "r3": {"Integer": "1"}, "r4": "Null"}
    return "run", {"source": src, "event": {}}, {"outcome": "ok", "event_eq": want}


# ---------------------------------------------------------------------------------------------------------------
# crud::get (src/value/value/crud/get.rs): the read side of the laws.  The loop is unrolled DEPTH times; the
# collection look-ups (`get_value` of the BTreeMap / Vec side of ValueCollection) and the path iterator are oracles.
# Along every path of the real body a reference walk is replayed over the recorded events:
#   * segment i is looked up in the container held by the value reached after i steps (root, then what look-up i-1
#     returned), fields in objects and indices in arrays, with the segment's own key / index;
#   * an exhausted path returns Some(the value reached), a look-up that finds nothing ends in None;
#   * a segment that is not looked up ends in None and -- a solver obligation over the path condition -- only when
#     the value reached is not a container of the segment's kind ("a path through a non-container finds nothing",
#     and conversely a container of the right kind is always consulted).

def m_get_value(ex, st, callee, args, dest_ty, frame, depth):
    k = len([e for e in st.trace if e["kind"] == "get_value"])
    ev = {"kind": "get_value", "recv": ex.val_name(st, args[0]), "key": ex.val_name(st, args[1]), "callee": callee}
    out = []
    s_none = st.fork()
    s_none.trace = list(st.trace) + [dict(ev, found=False)]
    out.append((s_none, Outcome("ret", Enum(dest_ty, bv64(0), {}))))
    st.trace.append(dict(ev, found=True))
    st.heap[f"nested{k}"] = ex.fresh(VAL, f"nested{k}")
    out.append((st, Outcome("ret", ex.mk_enum(dest_ty, "Some", [Ref("&" + VAL, f"nested{k}", ())]))))
    return out


def m_iter_next_v(ex, st, callee, args, dest_ty, frame, depth):
    n = len([e for e in st.trace if e["kind"] == "next"])
    v = ex.fresh(dest_ty, f"segment{n}")
    st.trace.append({"kind": "next", "value": v, "ty": dest_ty})
    return [(st, Outcome("ret", v))]


GET_ORACLES = [
    (re.compile(r" as ValueCollection>::get_value$"), m_get_value),
    (re.compile(r"BorrowedSegment<'a>> as Iterator>::next$"), m_iter_next_v),
]


def get_obligations(S, DEPTH=2):
    obls, fns = [], []
    cands = [f for f in S.prog.free.get("get", []) if f.name.endswith("crud::get::get")]
    if len(cands) != 1:
        raise Unencodable(f"crud::get::get: {len(cands)} bodies")
    f = cands[0]
    fns.append((f.name, f.text_hash))
    ex = S.executor(oracles=GET_ORACLES, opaque=[r"^<Cow<'_, str> as AsRef<str>>::as_ref$"], loop_bound=DEPTH)
    root = ex.fresh("&" + VAL, "root")
    paths = ex.run(f, [root, ex.fresh("impl Iterator", "path_iter")])
    for n_, h in ex.stats["fns_entered"].items():
        fns.append((n_, h))
    seen = {"some": 0, "lookup-none": 0, "mismatch": 0, "outside": 0, "two-steps": 0}
    SEG = "path::borrowed::BorrowedSegment<'_>"
    for pi, p in enumerate(paths):
        def add(tag, post, detail=None):
            role = f"C18:crud::get:{tag}"
            o = Obl(role, {"C18"}, f"{role}#path{pi}", p, post, detail)
            o.ex = ex
            obls.append(o)
        if p.outcome.kind == "loopbound":
            seen["outside"] += 1
            continue
        if p.outcome.kind != "ret":
            o = Obl(f"C04:crud::get:{p.outcome.kind}", {"C04", "C18"}, f"C04:crud::get:{p.outcome.kind}#path{pi}", p, z3.BoolVal(False), {"msg": p.outcome.msg})
            o.ex = ex
            obls.append(o)
            continue
        tr = p.st.trace
        v = V(ex, p.st)
        r = p.outcome.value
        detail = {"steps": [e["kind"] + ("" if e["kind"] == "next" else f"({e['recv']},{e['key']})->{'Some' if e['found'] else 'None'}") for e in tr],
                  "result": ex.val_name(p.st, r)[:140]}
        # reference walk
        cur_name, cur_ref, cur_val = "root*", "root", None
        i, ok, steps, last = 0, True, 0, None
        k = 0
        while k < len(tr):
            e = tr[k]
            if e["kind"] != "next":
                ok = False
                break
            last = ("next", e)
            if k + 1 < len(tr) and tr[k + 1]["kind"] == "get_value":
                g = tr[k + 1]
                is_field = g["recv"] == f"&{cur_name}.Object.0" and g["key"] == f"as_ref(&segment{i}.Some.0.Field.0)" and "BTreeMap<" in g["callee"]
                is_index = g["recv"] == f"&{cur_name}.Array.0" and g["key"] == f"&segment{i}.Some.0.Index.0" and g["callee"].startswith("<Vec<")
                if not (is_field or is_index):
                    ok = False
                    break
                last = ("get", g)
                if g["found"]:
                    cur_name, cur_ref = f"nested{i}", f"&nested{i}"
                    steps += 1
                k += 2
            else:
                k += 1
            i += 1
        if not ok:
            add("each-segment-is-looked-up-in-the-value-reached-so-far", z3.BoolVal(False), detail)
            continue
        if steps >= 2:
            seen["two-steps"] += 1
        rty = f.ret
        if last[0] == "get" and not last[1]["found"]:
            seen["lookup-none"] += 1
            add("failed-look-up-finds-nothing", v.is_variant(r, "None", rty), detail)
            continue
        if last[0] == "get":
            add("walk-continues-after-a-successful-look-up", z3.BoolVal(False), detail)
            continue
        seg = last[1]["value"]
        d_seg = v.discr(seg)
        exhausted = p.st.simp(d_seg)
        if z3.is_bv_value(exhausted) and exhausted.as_long() == 0:
            seen["some"] += 1
            want = "Some(" + cur_ref + ")"
            add("exhausted-path-returns-the-value-reached", z3.BoolVal(ex.val_name(p.st, r) == want), {**detail, "want": want})
            continue
        # a segment that was not looked up: result None, and the value reached is not a container of that kind
        seen["mismatch"] += 1
        segv = v.field(seg, "Some", 0, SEG)
        curv = p.st.heap[cur_name] if cur_name in p.st.heap else ex.read(p.st, *ex.deref_target(p.st, root))
        through = z3.Or(z3.And(v.is_variant(segv, "Field", SEG), v.is_variant(curv, "Object", VAL)),
                        z3.And(v.is_variant(segv, "Index", SEG), v.is_variant(curv, "Array", VAL)))
        add("only-a-non-container-or-mismatching-segment-ends-the-walk", z3.And(v.is_variant(r, "None", rty), z3.Not(through)), detail)
    if not (seen["some"] >= 2 and seen["lookup-none"] and seen["mismatch"] and seen["two-steps"]):
        raise Unencodable(f"crud::get: paths seen {seen} (vacuous)")
    return obls, sorted(set(fns)), seen


def get_replayer(o, model):
    src = ('.v = {"a": {"b": [10, [20, 30]]}, "s": "str", "n": 5}\n'
           '.r1 = .v.a.b[1][-1]\n.r2 = .v.s.x\n.r3 = .v.n[0]\n.r4 = .v.a[0]\n.r5 = .v.a.b.c\n.r6 = .v.a.b[-3]\n.r7 = .v.a.b[-2]\n.r8 = .v.a.zz.y\n')
    want = {"r1": {"Integer": "30"}, "r2": "Null", "r3": "Null", "r4": "Null", "r5": "Null", "r6": "Null", "r7": {"Integer": "10"}, "r8": "Null"}
    return "run", {"source": src, "event": {}}, {"outcome": "ok", "event_eq": want}
