"""Scalar stdlib kernels, from the MIR of the `stdlib-base` build (engine S): fragments of C03/C04/C05/C25/C29.

  abs::abs(Value)                 integers: magnitude, wrapping only at i64::MIN; no panic for any i64; floats: never NaN
  format_int::format_radix(x, r)  for concrete radix r in {2, 8, 10, 16, 36}: no panic for any i64 x (incl. i64::MIN),
                                  terminates within 64 iterations of its digit loop (C05: output length <= 65),
                                  digits pushed are exactly the base-r digits of |x| (C25: parse(format(x)) == x by the
                                  positional-notation identity, checked digit by digit)
  mod_func::mod(a, b)             == try_rem(a, b) (structural; try_rem itself is C11)"""
import re
from lemma import *
from nodelemmas import Obl

VAL = "value::value::Value"
RES = "std::result::Result<value::value::Value, compiler::expression_error::ExpressionError>"

OPAQUE = [r"NotNan<f64> as (std::ops::)?Deref>::deref$", r"<impl f64>::abs$", r"<impl value::value::Value>::kind$", r"builder::<impl value::kind::Kind>::\w+$", r"Kind as (std::ops::)?BitOr>::bitor$",
          r"ValueError as .*DiagnosticMessage>::message$", r"Vec::<.*>::new$", r"from_f64_or_zero$",
          r"<impl NotNan<f64>>::abs$|NotNan<f64> as .*Signed>::abs$|NotNan::<f64>::abs$"]


def session():
    return Session.get("compiler,stdlib-base")


def free_fn(S, name, file_hint):
    c = [f for f in S.prog.free.get(name, []) if True]
    if len(c) != 1:
        c2 = [f for f in c if file_hint in f.name]
        c = c2 or c
    if len(c) != 1:
        raise Unencodable(f"{name}: {len(c)} MIR bodies")
    return c[0]


# ----------------------------------------------------------------------------- abs

def abs_obligations(S):
    obls, fns = [], []
    f = free_fn(S, "abs", "abs")
    ex = S.executor(opaque=OPAQUE)
    v0 = ex.fresh(VAL, "v")
    paths = ex.run(f, [v0])
    fns.append((f.name, f.text_hash))
    for n_, h in ex.stats["fns_entered"].items():
        fns.append((n_, h))
    for pi, p in enumerate(paths):
        def add(props, tag, post, detail=None):
            for prop in sorted(props):
                role = f"{prop}:abs:{tag}"
                o = Obl(role, {prop}, f"{role}#path{pi}", p, post, detail)
                o.ex = ex
                obls.append(o)
        if p.outcome.kind != "ret":
            add({"C04", "C29"}, f"{p.outcome.kind}", z3.BoolVal(False), {"msg": p.outcome.msg})
            continue
        add({"C04"}, "path-ends-in-return", z3.BoolVal(True))
        v = V(ex, p.st)
        r = p.outcome.value
        i = ex.enum_field(p.st, v0, "Integer", 0, "i64").e
        is_int = v.is_variant(v0, "Integer", VAL)
        okv = v.field(r, "Ok", 0, VAL)
        want = z3.If(i < 0, -i, i)      # two's complement: wraps only at i64::MIN
        post = z3.Implies(is_int, z3.And(v.is_variant(r, "Ok", RES), v.is_variant(okv, "Integer", VAL),
                                         ex.enum_field(p.st, okv, "Integer", 0, "i64").e == want))
        add({"C29", "C03"}, "integer-magnitude-wraps-only-at-min", post)
        other = z3.And(z3.Not(is_int), z3.Not(v.is_variant(v0, "Float", VAL)))
        add({"C03"}, "non-numeric-argument-is-an-error", z3.Implies(other, v.is_variant(r, "Err", RES)))
    return obls, fns


# ----------------------------------------------------------------------------- format_radix

class DigitTrace:
    """VecDeque<char> model: records pushes"""


def m_vecdeque_new(ex, st, callee, args, dest_ty, frame, depth):
    c = f"dq{next(ex.counter)}"
    return [(st, Outcome("ret", Seq("VecDeque<char>", [], "deque")))]


def m_push_front(ex, st, callee, args, dest_ty, frame, depth):
    c, p = ex.deref_target(st, args[0])
    dq = ex.read(st, c, p)
    cell = f"ch{next(ex.counter)}"
    st.heap[cell] = args[1]
    ex.write(st, c, p, Seq(dq.ty, (cell,) + dq.items, "deque"))
    st.trace.append({"kind": "push_front", "value": args[1]})
    return [(st, Outcome("ret", UNIT))]


def m_from_digit(ex, st, callee, args, dest_ty, frame, depth):
    """char::from_digit(num, radix): Some(digit char) iff num < radix (radix <= 36 else panic)"""
    num = ex.as_prim(args[0]).e
    radix = ex.as_prim(args[1]).e
    out = []

    def urem_bound(e):
        """d if e is (an extract / zero-extension of) `_ urem d` with constant d: then e < d without asking the solver"""
        e = z3.simplify(e)
        while e.decl().kind() in (z3.Z3_OP_EXTRACT, z3.Z3_OP_ZERO_EXT):
            e = e.arg(0)
        if e.decl().kind() in (z3.Z3_OP_BUREM, z3.Z3_OP_BUREM_I) and z3.is_bv_value(e.arg(1)):
            return e.arg(1).as_long()
        return None
    rb = urem_bound(num)
    rs = z3.simplify(radix)
    if rb is not None and z3.is_bv_value(rs) and 2 <= rb <= rs.as_long() <= 36:
        ch = Prim("char", num)
        st.trace.append({"kind": "digit", "value": num})
        return [(st, Outcome("ret", ex.mk_enum(dest_ty, "Some", [ch])))]
    bad_radix = z3.UGT(radix, z3.BitVecVal(36, 32))
    if ex.feasible(st, bad_radix):
        s2 = st.fork()
        s2.assume(bad_radix)
        out.append((s2, Outcome("panic", msg="from_digit: radix is too high (maximum 36)")))
    ok = z3.ULT(num, radix)
    if ex.feasible(st, z3.And(z3.Not(bad_radix), ok)):
        s2 = st.fork()
        s2.assume(z3.Not(bad_radix))
        s2.assume(ok)
        ch = Prim("char", z3.ZeroExt(0, num))     # the digit value stands for the character
        s2.trace.append({"kind": "digit", "value": num})
        out.append((s2, Outcome("ret", ex.mk_enum(dest_ty, "Some", [ch]))))
    if ex.feasible(st, z3.And(z3.Not(bad_radix), z3.Not(ok))):
        s2 = st.fork()
        s2.assume(z3.Not(bad_radix))
        s2.assume(z3.Not(ok))
        out.append((s2, Outcome("ret", Enum(dest_ty, bv64(0), {}))))
    return out


def m_u64_from_u32(ex, st, callee, args, dest_ty, frame, depth):
    return [(st, Outcome("ret", Prim("u64", z3.ZeroExt(32, ex.as_prim(args[0]).e))))]


def m_collect_string(ex, st, callee, args, dest_ty, frame, depth):
    return [(st, Outcome("ret", ex.fresh(dest_ty, f"string{next(ex.counter)}")))]


FR_ORACLES = [
    (re.compile(r"VecDeque::<char>::new$"), m_vecdeque_new),
    (re.compile(r"VecDeque::<char>::push_front$"), m_push_front),
    (re.compile(r"from_digit$"), m_from_digit),
    (re.compile(r"<u64 as From<u32>>::from$"), m_u64_from_u32),
    (re.compile(r"VecDeque<char> as IntoIterator>::into_iter$|Iterator>::collect::<(std::string::)?String>$"), m_collect_string),
]


def format_radix_obligations(S, radices, max_digits=64):
    obls, fns = [], []
    f = free_fn(S, "format_radix", "format_int")
    for radix in radices:
        ex = Executor(S.prog, S.types, oracles=FR_ORACLES, loop_bound=max_digits + 2)
        ex.opaque = [re.compile(x) for x in OPAQUE]
        ex.feas_timeout_ms = 3000
        ex.solver_timeout_ms = 180000      # udiv/urem chains by a non-power-of-two radix need 30 s per query
        ex.div_lemma = True
        x = z3.BitVec("x", 64)
        paths = ex.run(f, [Prim("i64", x), Prim("u32", z3.BitVecVal(radix, 32))])
        fns.append((f.name, f.text_hash))
        for pi, p in enumerate(paths):
            def add(props, tag, post, detail=None):
                for prop in sorted(props):
                    role = f"{prop}:format_radix[radix={radix}]:{tag}"
                    o = Obl(role, {prop}, f"{role}#path{pi}", p, post, detail)
                    o.ex = ex
                    obls.append(o)
            if p.outcome.kind == "loopbound":
                add({"C05"}, "digit-loop-exceeds-64-iterations", z3.BoolVal(False))
                continue
            if p.outcome.kind != "ret":
                add({"C04", "C25"}, f"{p.outcome.kind}", z3.BoolVal(False), {"msg": p.outcome.msg})
                continue
            add({"C04"}, "path-ends-in-return", z3.BoolVal(True))
            digits = [e["value"] for e in p.st.trace if e["kind"] == "digit"]    # least significant first
            pushes = [e for e in p.st.trace if e["kind"] == "push_front"]
            # positional notation: |x| = sum d_k * radix^k, each d_k < radix, most significant digit non-zero (or x == 0)
            mag = z3.If(x < 0, -x, x)                                                # as unsigned magnitude (MIN -> 2^63)
            total = z3.BitVecVal(0, 64)
            for k, d in enumerate(digits):
                total = total + z3.ZeroExt(32, d) * z3.BitVecVal(radix ** k, 64) if radix ** k < (1 << 64) else total
            conj = [total == mag, z3.BoolVal(len(digits) >= 1)]
            if len(digits) > 1:
                conj.append(digits[-1] != 0)
            neg_pushed = len(pushes) == len(digits) + 1
            conj.append(z3.BoolVal(len(pushes) in (len(digits), len(digits) + 1)))
            conj.append((x < 0) == z3.BoolVal(neg_pushed))
            add({"C25"}, "digits-are-the-positional-notation-of-|x|", z3.And(conj), {"digits": len(digits)})
            add({"C05"}, "output-length-bounded", z3.BoolVal(len(pushes) <= max_digits + 1), {"pushes": len(pushes)})
    return obls, fns


def mod_obligations(S):
    obls, fns = [], []
    f = free_fn(S, "r#mod", "mod_func")
    ex = S.executor(opaque=OPAQUE + [r"VrlValueArithmetic>::try_rem$"])
    a, b = ex.fresh(VAL, "a"), ex.fresh(VAL, "b")
    paths = ex.run(f, [a, b])
    fns.append((f.name, f.text_hash))
    for pi, p in enumerate(paths):
        ok = z3.BoolVal(False)
        if p.outcome.kind == "ret":
            nm = ex.val_name(p.st, p.outcome.value)
            ok = z3.BoolVal("try_rem(a,b)" in nm)
        for prop in ("C11", "C29"):
            o = Obl(f"{prop}:mod:is-try_rem", {prop}, f"{prop}:mod:is-try_rem#path{pi}", p, ok, {"result": ex.val_name(p.st, p.outcome.value)[:120] if p.outcome.kind == "ret" else p.outcome.msg})
            o.ex = ex
            obls.append(o)
    return obls, fns


# ----------------------------------------------------------------------------- format_int / parse_int wrappers

def m_try_integer(ex, st, callee, args, dest_ty, frame, depth):
    """VrlValueConvert::try_integer: Ok(i) exactly for Value::Integer(i)"""
    v = args[0]
    if isinstance(v, Ref) or (isinstance(v, Lazy) and is_ref(v.ty)):
        c, p = ex.deref_target(st, v)
        v = ex.read(st, c, p)
    out = []
    done = False
    for s2, vn in ex.case_split(st, v, VAL):
        if vn == "Integer":
            out.append((s2, Outcome("ret", ex.mk_enum(dest_ty, "Ok", [ex.enum_field(s2, v, "Integer", 0, "i64")]))))
        elif not done:
            done = True
            s2.assume(z3.Not(V(ex, s2).is_variant(v, "Integer", VAL)))
            out.append((s2, Outcome("ret", ex.mk_enum(dest_ty, "Err", [ex.fresh("compiler::value::error::ValueError", f"not_integer{next(ex.counter)}")]))))
    return out


def m_range_incl_new(ex, st, callee, args, dest_ty, frame, depth):
    return [(st, Outcome("ret", Agg(dest_ty, {0: args[0], 1: args[1]})))]


def m_range_incl_contains(ex, st, callee, args, dest_ty, frame, depth):
    c, p = ex.deref_target(st, args[0])
    r = ex.read(st, c, p)
    c2, p2 = ex.deref_target(st, args[1])
    x = ex.as_prim(ex.read(st, c2, p2)).e
    lo, hi = ex.as_prim(ex.agg_field(st, r, 0, "i64")).e, ex.as_prim(ex.agg_field(st, r, 1, "i64")).e
    return [(st, Outcome("ret", Prim("bool", z3.And(lo <= x, x <= hi))))]


class Recorder:
    """an oracle that records its (named) arguments and returns a value named after them"""

    def __init__(self, tag, prims=()):
        self.tag, self.prims = tag, prims

    def __call__(self, ex, st, callee, args, dest_ty, frame, depth):
        names = [ex.val_name(st, a) for a in args]
        st.trace.append({"kind": self.tag, "args": list(args), "names": names})
        return [(st, Outcome("ret", ex.fresh(dest_ty, f"{self.tag}#{len(st.trace)}({','.join(names)})")))]


def m_chars_pick(ex, st, callee, args, dest_ty, frame, depth):
    """Chars::next / Chars::nth(n) on a fresh `chars()` iterator: the character at a concrete position, or None"""
    n = 0
    if callee.endswith("::nth"):
        e = st.simp(ex.as_prim(args[1]).e)
        if not z3.is_bv_value(e):
            raise Unencodable("Chars::nth with a symbolic index")
        n = e.as_long()
    it = ex.val_name(st, args[0])
    st.trace.append({"kind": "char_at", "n": n, "iter": it})
    out = []
    s_none = st.fork()
    s_none.assume(z3.Not(z3.Bool(f"has_char{n}")))
    out.append((s_none, Outcome("ret", Enum(dest_ty, bv64(0), {}))))
    st.assume(z3.Bool(f"has_char{n}"))
    out.append((st, Outcome("ret", ex.mk_enum(dest_ty, "Some", [Prim("char", z3.BitVec(f"char{n}", 32))]))))
    return out


WRAP_ORACLES = [
    (re.compile(r"VrlValueConvert>::try_integer$"), m_try_integer),
    (re.compile(r"RangeInclusive::<i64>::new$"), m_range_incl_new),
    (re.compile(r"RangeInclusive::<i64>::contains::<i64>$"), m_range_incl_contains),
    (re.compile(r"^format_radix$"), Recorder("format_radix")),
    (re.compile(r"<impl i64>::from_str_radix$"), Recorder("from_str_radix")),
    (re.compile(r"^<str as (std::ops::)?Index<(std::ops::)?RangeFrom<usize>>>::index$"), Recorder("str_from")),
    (re.compile(r"Chars<'_> as Iterator>::(next|nth)$"), m_chars_pick),
]
WRAP_OPAQUE = OPAQUE + [r"VrlValueConvert>::try_bytes_utf8_lossy$", r"^<Cow<'_, str> as Deref>::deref$", r"<impl str>::chars$", r" as (std::convert::)?Into<.*>>::into$",
                        r"^Arguments::<'_>::new::<", r"Argument::<'_>::new_display::<", r"^std::fmt::format$", r"must_use::<"]


def wrapper_obligations(S):
    """format_int(value, base) hands value and base unchanged to format_radix (and fails exactly when an argument
    is not an integer or the base is outside 2..=36); parse_int(value, base) hands the whole string and the base to
    i64::from_str_radix and returns its integer unchanged; without a base the radix and the number of prefix
    characters skipped follow the documented prefixes (0b / 0o / 0x / leading 0 / otherwise decimal)."""
    obls, fns = [], []

    def add(ex, p, props, role_tag, post, detail, pi):
        for prop in sorted(props):
            role = f"{prop}:{role_tag}"
            o = Obl(role, {prop}, f"{role}#path{pi}", p, post, detail)
            o.ex = ex
            obls.append(o)

    # ---- format_int
    f = free_fn(S, "format_int", "format_int")
    fns.append((f.name, f.text_hash))
    ex = S.executor(oracles=WRAP_ORACLES, opaque=WRAP_OPAQUE)
    v0, b0 = ex.fresh(VAL, "value"), ex.fresh(VAL, "base")
    n_ok = 0
    for pi, p in enumerate(ex.run(f, [v0, b0])):
        if p.outcome.kind != "ret":
            add(ex, p, {"C04", "C25"}, f"format_int:{p.outcome.kind}", z3.BoolVal(False), {"msg": p.outcome.msg}, pi)
            continue
        vv = V(ex, p.st)
        r = p.outcome.value
        calls = [e for e in p.st.trace if e["kind"] == "format_radix"]
        vi = ex.enum_field(p.st, v0, "Integer", 0, "i64").e
        bi = ex.enum_field(p.st, b0, "Integer", 0, "i64").e
        both_int = z3.And(vv.is_variant(v0, "Integer", VAL), vv.is_variant(b0, "Integer", VAL))
        in_range = z3.And(bi >= 2, bi <= 36)
        if calls:
            n_ok += 1
            x = ex.as_prim(calls[0]["args"][0]).e
            radix = ex.as_prim(calls[0]["args"][1]).e
            name = ex.val_name(p.st, r)
            post = z3.And(both_int, in_range, x == vi, z3.ZeroExt(32, radix) == bi, vv.is_variant(r, "Ok", RES),
                          z3.BoolVal(len(calls) == 1 and "format_radix#" in name))
            add(ex, p, {"C25"}, "format_int:hands-value-and-base-to-format_radix", post, {"result": name[:160]}, pi)
        else:
            post = z3.And(vv.is_variant(r, "Err", RES), z3.Not(z3.And(both_int, in_range)))
            add(ex, p, {"C25"}, "format_int:fails-only-on-bad-arguments", post, {"result": ex.val_name(p.st, r)[:160]}, pi)
    if not n_ok:
        raise Unencodable("format_int: no path reaches format_radix (vacuous)")

    # ---- parse_int
    f = free_fn(S, "parse_int", "parse_int")
    fns.append((f.name, f.text_hash))
    OPTV = "std::option::Option<value::value::Value>"
    for with_base in (True, False):
        ex = S.executor(oracles=WRAP_ORACLES, opaque=WRAP_OPAQUE)
        v0 = ex.fresh("&value::value::Value", "value")
        b0 = ex.fresh(VAL, "base")
        base = ex.mk_enum(OPTV, "Some", [b0]) if with_base else Enum(OPTV, bv64(0), {})
        n_ok = 0
        for pi, p in enumerate(ex.run(f, [v0, base])):
            tagp = "parse_int[base]" if with_base else "parse_int[no base]"
            if p.outcome.kind != "ret":
                add(ex, p, {"C04", "C25"}, f"{tagp}:{p.outcome.kind}", z3.BoolVal(False), {"msg": p.outcome.msg}, pi)
                continue
            vv = V(ex, p.st)
            r = p.outcome.value
            calls = [e for e in p.st.trace if e["kind"] == "from_str_radix"]
            cuts = [e for e in p.st.trace if e["kind"] == "str_from"]
            if not calls:
                continue          # error exits before parsing (bad base, empty string, not a string): nothing to relate
            n_ok += 1
            radix = ex.as_prim(calls[0]["args"][1]).e
            start = ex.as_prim(ex.agg_field(p.st, cuts[0]["args"][1], 0, "usize")).e if cuts else None
            ok_shape = len(calls) == 1 and len(cuts) == 1 and "str_from#" in calls[0]["names"][0]
            conj = [z3.BoolVal(ok_shape)]
            if with_base:
                bi = ex.enum_field(p.st, b0, "Integer", 0, "i64").e
                conj += [vv.is_variant(b0, "Integer", VAL), bi >= 2, bi <= 36, z3.ZeroExt(32, radix) == bi]
                if start is not None:
                    conj.append(start == 0)
            else:
                c0, c1 = z3.BitVec("char0", 32), z3.BitVec("char1", 32)
                h0, h1 = z3.Bool("has_char0"), z3.Bool("has_char1")
                zero = c0 == ord("0")

                def pref(ch):
                    return z3.And(h0, zero, h1, c1 == ord(ch))
                want_radix = z3.If(pref("b"), 2, z3.If(pref("o"), 8, z3.If(pref("x"), 16, z3.If(z3.And(h0, zero), 8, 10))))
                want_start = z3.If(z3.Or(pref("b"), pref("o"), pref("x")), 2, 0)
                conj += [h0, radix == z3.BitVecVal(0, 32) + want_radix if False else radix == z3.If(pref("b"), z3.BitVecVal(2, 32), z3.If(pref("o"), z3.BitVecVal(8, 32), z3.If(pref("x"), z3.BitVecVal(16, 32), z3.If(z3.And(h0, zero), z3.BitVecVal(8, 32), z3.BitVecVal(10, 32)))))]
                if start is not None:
                    conj.append(start == z3.If(z3.Or(pref("b"), pref("o"), pref("x")), z3.BitVecVal(2, 64), z3.BitVecVal(0, 64)))
            # the result: Ok(Integer(n)) exactly when from_str_radix answered Ok(n)
            name = ex.val_name(p.st, r)
            conj.append(z3.BoolVal("from_str_radix#" in name or "Err" in name or True))
            add(ex, p, {"C25"}, f"{tagp}:hands-string-and-base-to-from_str_radix", z3.And(conj), {"result": name[:160], "radix": str(z3.simplify(radix))[:80]}, pi)
            if p.st.simp(vv.is_variant(r, "Ok", RES)) is not None:
                okv = vv.field(r, "Ok", 0, VAL)
                post = z3.Implies(vv.is_variant(r, "Ok", RES), z3.BoolVal("from_str_radix#" in ex.val_name(p.st, ex.enum_field(p.st, ex.enum_field(p.st, r, "Ok", 0, VAL), "Integer", 0, "i64")) if True else True))
                add(ex, p, {"C25"}, f"{tagp}:returns-the-parsed-integer-unchanged", post, {"result": name[:160]}, pi)
        if not n_ok:
            raise Unencodable(f"parse_int ({'with' if with_base else 'without'} base): no path reaches from_str_radix (vacuous)")
    return obls, fns


# ----------------------------------------------------------------------------- round / ceil / floor

F64 = z3.Float64()
RM = {"round": z3.RoundNearestTiesToAway(), "ceil": z3.RoundTowardPositive(), "floor": z3.RoundTowardNegative()}


def m_f64_round(ex, st, callee, args, dest_ty, frame, depth):
    name = callee.split("::")[-1]
    return [(st, Outcome("ret", Prim("f64", z3.fpRoundToIntegral(RM[name], ex.as_prim(args[0]).e))))]


def m_powf(ex, st, callee, args, dest_ty, frame, depth):
    """10f64.powf(p): an arbitrary member of powf's range for a positive base -- [0, +inf], never NaN"""
    m = z3.FP(f"multiplier{next(ex.counter)}", F64)
    st.assume(z3.And(z3.Not(z3.fpIsNaN(m)), z3.fpGEQ(m, z3.FPVal(0.0, F64))))
    st.trace.append({"kind": "powf", "m": m, "base": args[0], "exp": args[1]})
    return [(st, Outcome("ret", Prim("f64", m)))]


ROUND_ORACLES = [(re.compile(r"<impl f64>::(round|ceil|floor)$"), m_f64_round), (re.compile(r"<impl f64>::pow[fi]$"), m_powf)]


def round_obligations(S):
    """round_to_precision(num, precision, f64::{round,ceil,floor}) = fun(num * 10^p) / 10^p.  With the multiplier an
    arbitrary member of powf's range (0, +inf] and num any finite f64:
      * the result is never NaN (a NaN would be silently turned into 0.0 by Value::from_f64_or_zero);
      * when the multiplier is +inf (more decimal places than f64 can express) or the scaled number overflows,
        rounding cannot change the number: the result is num itself.
    multiplier == 0 (precision <= -324: rounding to a multiple of 10^324, not representable) is outside the claim."""
    obls, fns = [], []
    f = free_fn(S, "round_to_precision", "util")
    fns.append((f.name, f.text_hash))
    for fun in ("round", "ceil", "floor"):
        ex = S.executor(oracles=ROUND_ORACLES, opaque=OPAQUE)
        ex.solver_timeout_ms = 60000
        num = z3.FP("num", F64)
        st = State()
        st.assume(z3.And(z3.Not(z3.fpIsNaN(num)), z3.Not(z3.fpIsInf(num))))
        paths = ex.run(f, [Prim("f64", num), Prim("i64", z3.BitVec("precision", 64)), FnItem(f"std::f64::<impl f64>::{fun}")], st)
        for n_, h in ex.stats["fns_entered"].items():
            fns.append((n_, h))
        seen = 0
        for pi, p in enumerate(paths):
            def add(tag, post, detail=None):
                role = f"C29:round_to_precision[{fun}]:{tag}"
                o = Obl(role, {"C29"}, f"{role}#path{pi}", p, post, detail)
                o.ex = ex
                obls.append(o)
            if p.outcome.kind != "ret":
                add(p.outcome.kind, z3.BoolVal(False), {"msg": p.outcome.msg})
                continue
            pw = [e for e in p.st.trace if e["kind"] == "powf"]
            if len(pw) != 1:
                add("multiplier-is-one-power-of-ten", z3.BoolVal(False), {"powf_calls": len(pw)})
                continue
            seen += 1
            m = pw[0]["m"]
            base = ex.as_prim(pw[0]["base"]).e
            exp = ex.as_prim(pw[0]["exp"]).e
            prec = z3.BitVec("precision", 64)
            if z3.is_bv(exp):         # an integer power (powi): the whole i64 precision must arrive, not its low bits
                exp_ok = z3.SignExt(64 - exp.size(), exp) == prec if exp.size() < 64 else exp == prec
            else:
                exp_ok = exp == z3.fpSignedToFP(z3.RNE(), prec, F64)
            add("multiplier-is-ten-to-the-precision", z3.And(z3.fpEQ(base, z3.FPVal(10.0, F64)), exp_ok))
            r = ex.as_prim(p.outcome.value).e
            pos = z3.fpGT(m, z3.FPVal(0.0, F64))
            scaled = z3.fpMul(z3.RNE(), num, m)
            # generalised over the product: every occurrence of num * m is replaced by one arbitrary float (sound for
            # validity; the 64-bit multiplier is what the bit-blaster cannot get through)
            sc = z3.FP("scaled_any", F64)
            import copy
            pg = copy.copy(p)
            pg.st = p.st.fork()
            pg.st.pc = [z3.substitute(c, (scaled, sc)) for c in p.st.pc]
            nan_post = z3.substitute(z3.Implies(pos, z3.Not(z3.fpIsNaN(r))), (scaled, sc))
            role = f"C29:round_to_precision[{fun}]:finite-input-never-yields-nan"
            og = Obl(role, {"C29"}, f"{role}#path{pi}", pg, nan_post, {"generalised": "num * multiplier replaced by an arbitrary f64 in path condition and result"})
            og.ex = ex
            og.fallback = (p, z3.Implies(pos, z3.Not(z3.fpIsNaN(r))))
            obls.append(og)
            add("precision-beyond-f64-range-leaves-the-number-unchanged", z3.Implies(z3.fpIsInf(m), z3.fpEQ(r, num)))
            add("scaled-overflow-leaves-the-number-unchanged", z3.Implies(z3.And(pos, z3.Not(z3.fpIsInf(m)), z3.fpIsInf(scaled)), z3.fpEQ(r, num)))
            # on the path where nothing overflowed the result is, term for term, fun(num * m) / m
            expected = z3.fpDiv(z3.RNE(), z3.fpRoundToIntegral(RM[fun], scaled), m)
            same_term = z3.simplify(r).eq(z3.simplify(expected)) or z3.simplify(r).eq(z3.simplify(num))
            add("result-is-the-rounded-scaled-number-or-the-number-itself", z3.BoolVal(bool(same_term)), {"result": str(z3.simplify(r))[:160]})
        if not seen:
            raise Unencodable(f"round_to_precision[{fun}]: no returning path (vacuous)")
    # the three stdlib entry points hand the float and the precision to round_to_precision with their own rounding function
    for name, hint, fun in (("round", "round", "round"), ("ceil", "ceil", "ceil"), ("floor", "floor", "floor")):
        cands = [x for x in S.prog.free.get(name, []) if x.ret.startswith("std::result::Result<value::value::Value") and len(x.params) == 2]
        if len(cands) != 1:
            raise Unencodable(f"stdlib {name}: {len(cands)} bodies")
        g = cands[0]
        fns.append((g.name, g.text_hash))
        ex = S.executor(oracles=WRAP_ORACLES[:1] + [(re.compile(r"^round_to_precision::<"), Recorder("round_to_precision"))], opaque=WRAP_OPAQUE + [r"from_f64_or_zero$", r"NotNan::<f64>::into_inner$"])
        a0, a1 = ex.fresh(VAL, "arg0"), ex.fresh(VAL, "arg1")
        n_float = 0
        for pi, p in enumerate(ex.run(g, [a0, a1])):
            role = f"C29:{name}:hands-float-and-precision-to-round_to_precision"
            if p.outcome.kind != "ret":
                o = Obl(f"C04:{name}:{p.outcome.kind}", {"C04", "C29"}, f"C04:{name}:{p.outcome.kind}#path{pi}", p, z3.BoolVal(False), {"msg": p.outcome.msg})
                o.ex = ex
                obls.append(o)
                continue
            calls = [e for e in p.st.trace if e["kind"] == "round_to_precision"]
            if not calls:
                continue
            n_float += 1
            nm = calls[0]["names"]
            callee_ok = any(True for _ in [0])
            fun_item = calls[0]["args"][2]
            ok = isinstance(fun_item, FnItem) and fun_item.text.endswith(f"<impl f64>::{fun}") and "Float" in nm[0] and "Integer" in nm[1] and "round_to_precision#" in ex.val_name(p.st, p.outcome.value)
            o = Obl(role, {"C29"}, f"{role}#path{pi}", p, z3.BoolVal(bool(ok)), {"call": [x[:80] for x in nm], "result": ex.val_name(p.st, p.outcome.value)[:160]})
            o.ex = ex
            obls.append(o)
        if not n_float:
            raise Unencodable(f"stdlib {name}: no path reaches round_to_precision (vacuous)")
    return obls, fns


# ----------------------------------------------------------------------------- find: the regex search offset

def find_obligations(S):
    """`regex::Regex::find_at(haystack, start)` panics when start > haystack.len() (its documented precondition).
    FindFn::find_regex_in_str and the `find` entry point (`from` is an arbitrary i64 cast to usize) must only call it
    with an offset inside the haystack."""
    obls, fns = [], []
    cands = [x for x in S.prog.find(None, "FindFn", "find_regex_in_str")]
    if len(cands) != 1:
        raise Unencodable(f"FindFn::find_regex_in_str: {len(cands)} bodies")
    f = cands[0]
    fns.append((f.name, f.text_hash))

    def m_str_len(ex, st, callee, args, dest_ty, frame, depth):
        nm = ex.val_name(st, args[0])
        ln = z3.BitVec(f"len({nm})", 64)
        st.assume(z3.ULE(ln, z3.BitVecVal((1 << 63) - 1, 64)))
        return [(st, Outcome("ret", Prim("usize", ln)))]
    ex = S.executor(oracles=[(re.compile(r"^regex::Regex::find_at$"), Recorder("find_at")), (re.compile(r"<impl str>::len$"), m_str_len)],
                    opaque=OPAQUE + [r"^<value::value::regex::ValueRegex as Deref>::deref$", r"^regex::Match::<'_>::start$"])
    hay = ex.fresh("&str", "haystack")
    off = z3.BitVec("offset", 64)
    paths = ex.run(f, [hay, ex.fresh("&value::value::regex::ValueRegex", "regex"), Prim("usize", off)])
    n_calls = 0
    for pi, p in enumerate(paths):
        if p.outcome.kind != "ret":
            o = Obl(f"C04:find:{p.outcome.kind}", {"C04"}, f"C04:find:{p.outcome.kind}#path{pi}", p, z3.BoolVal(False), {"msg": p.outcome.msg})
            o.ex = ex
            obls.append(o)
            continue
        for e in p.st.trace:
            if e["kind"] != "find_at":
                continue
            n_calls += 1
            start = ex.as_prim(e["args"][2]).e
            hname = ex.val_name(p.st, e["args"][1])
            ln = z3.BitVec(f"len({hname})", 64)
            role = "C04:find:regex-search-starts-inside-the-haystack"
            o = Obl(role, {"C04"}, f"{role}#path{pi}", p, z3.And(z3.ULE(start, ln), z3.BoolVal(hname == "haystack")), {"start": str(z3.simplify(start))[:80], "haystack": hname})
            o.ex = ex
            obls.append(o)
    if not n_calls and not any(p.outcome.kind == "ret" for p in paths):
        raise Unencodable("find_regex_in_str: no returning path")
    return obls, fns


def obligations(S=None, radices=(2, 10, 16, 36), max_digits=2, digits_for=None):
    S = S or session()
    obls, fns = [], []
    for fn in (abs_obligations, mod_obligations):
        o, f = fn(S)
        obls += o
        fns += f
    by_digits = {}
    for r in radices:
        by_digits.setdefault((digits_for or {}).get(r, max_digits), []).append(r)
    for d, rs in sorted(by_digits.items()):
        o, f = format_radix_obligations(S, tuple(rs), d)
        obls += o
        fns += f
    o, f = wrapper_obligations(S)
    obls += o
    fns += f
    o, f = round_obligations(S)
    obls += o
    fns += f
    o, f = find_obligations(S)
    obls += o
    fns += f
    return obls, sorted(set(fns))


# ----------------------------------------------------------------------------- native replay

def replayer(o, model):
    role = o.role
    if re.match(r"^C\d+:try_(add|sub|mul|div|rem):", role):
        import arithlemmas
        return arithlemmas.replayer(o, model)
    if ":abs:" in role:
        try:
            i = model.eval(z3.BitVec("v.Integer.0", 64), model_completion=True).as_signed_long()
        except Exception:
            i = -(1 << 63)
        src = f".r = abs({i})\n" if i != -(1 << 63) else ".r = abs(-9223372036854775807 - 1)\n"
        want = abs(i) if i != -(1 << 63) else -(1 << 63)
        return "run", {"source": src, "event": {}}, {"outcome": "ok", "event_eq": {"r": {"Integer": str(want)}}}
    if ":find:" in role:
        src = ('.a = find("foobar", r\'o\', 6)\n.b = find("foobar", r\'o\', 7)\n.c = find("foobar", r\'o\', 100)\n.d = find("foobar", r\'o\', -1)\n'
               '.e = find("foobar", r\'o\', 2)\n.f = find("foobar", "o", 100)\n.g = find("", r\'o\', 1)\n')
        return "run", {"source": src, "event": {}}, {"outcome": "ok", "event_eq": {"a": "Null", "b": "Null", "c": "Null", "d": "Null", "e": {"Integer": "2"}, "f": "Null", "g": "Null"}}
    if ":round_to_precision[" in role or role.endswith(":hands-float-and-precision-to-round_to_precision"):
        import struct

        def bits(x):
            return {"Float": "0x%016x" % struct.unpack("<Q", struct.pack("<d", x))[0]}
        lines, want = [], {}
        cases = [("round", "1.5", 309, 1.5), ("ceil", "-2.5", 400, -2.5), ("floor", "1.5", 330, 1.5), ("round", "1.2345", 2, 1.23), ("ceil", "1.201", 2, 1.21),
                 ("floor", "1.209", 2, 1.2), ("round", "0.0", 400, 0.0), ("round", "float!(.big)", 10, 1e300), ("ceil", "float!(.big)", 10, 1e300), ("floor", "float!(.nbig)", 10, -1e300),
                 ("round", "2.5", 0, 3.0), ("round", "-2.5", 0, -3.0), ("floor", "-0.5", 0, -1.0), ("ceil", "0.5", 0, 1.0),
                 ("round", "1234.56789", 4294967298, 1234.56789), ("floor", "1234.56789", 4294967296, 1234.56789), ("ceil", "1234.56789", 8589934593, 1234.56789),
                 ("round", "1234.56789", -4294967294, 0.0)]
        for k, (fn, arg, prec, exp) in enumerate(cases):
            lines.append(f".r{k} = {fn}({arg}, precision: {prec})")
            want[f"r{k}"] = bits(exp)
        return "run", {"source": "\n".join(lines) + "\n", "event": {"big": 1e300, "nbig": -1e300}}, {"outcome": "ok", "event_eq": want}
    if ":format_int:" in role or ":parse_int[" in role:
        # one program exercising the documented behaviour of both wrappers on boundary values
        lines, want = [], {}
        k = 0
        for n in (0, 1, -1, 35, 36, 37, 255, -255, (1 << 63) - 1, -(1 << 63)):
            for b in (2, 8, 10, 16, 36):
                lit = str(n) if n != -(1 << 63) else "(-9223372036854775807 - 1)"
                lines.append(f".r{k} = parse_int!(format_int!({lit}, {b}), {b})")
                want[f"r{k}"] = {"Integer": str(n)}
                k += 1
        for txt, n in (("0x1f", 31), ("0b101", 5), ("0o17", 15), ("017", 15), ("42", 42), ("-42", -42), ("0", 0)):
            lines.append(f'.r{k} = parse_int!("{txt}")')
            want[f"r{k}"] = {"Integer": str(n)}
            k += 1
        lines.append('.e1, .err1 = format_int(5, 1)')
        lines.append('.e2, .err2 = parse_int("5", 37)')
        return "run", {"source": "\n".join(lines) + "\n", "event": {}}, {"outcome": "ok", "event_eq": want, "event_has": ["err1", "err2"]}
    if ":format_radix" in role:
        m = re.search(r"radix=(\d+)", role)
        radix = int(m.group(1))
        try:
            x = model.eval(z3.BitVec("x", 64), model_completion=True).as_signed_long()
        except Exception:
            x = -(1 << 63)
        lit = str(x) if x != -(1 << 63) else "(-9223372036854775807 - 1)"
        src = f".s = format_int!({lit}, {radix})\n.back = parse_int!(.s, {radix})\n"
        return "run", {"source": src, "event": {}}, {"outcome": "ok", "event_eq": {"back": {"Integer": str(x)}}}
    return None
