"""Symbolic executor over rustc MIR text (engine S).

Values are immutable Python objects over z3 terms; unknown inputs are *named lazy terms* whose
structure is derived on demand from the MIR's own typed projections (`((_9 as Continue).0: Value)`),
so no Rust type layout has to be supplied by hand.  Execution is path-by-path (fork at every
symbolic switchInt / assert), every path ends in an Outcome; lemmas are then discharged by z3 per path.

Fail-closed: an unknown callee, an unparsed statement or an unsupported rvalue raises Unencodable."""
import re, itertools
import z3
from mirparse import *
from rtypes import *

RNE = z3.RNE()
F64 = z3.Float64()
# associated constants of f64 (exact values)
STD_F64_CONSTS = {"EPSILON": 2.0 ** -52, "MAX": 1.7976931348623157e308, "MIN": -1.7976931348623157e308, "MIN_POSITIVE": 2.2250738585072014e-308,
                  "INFINITY": float("inf"), "NEG_INFINITY": float("-inf")}


class Unencodable(Exception):
    pass


# ----------------------------------------------------------------------------- values

class SymVal:
    ty = "?"


class Prim(SymVal):
    __slots__ = ("ty", "e")

    def __init__(self, ty, e):
        self.ty, self.e = ty, e

    def __repr__(self):
        return f"Prim({self.ty}, {self.e})"


class Lazy(SymVal):
    """named unknown value of type ty; uid is its identity"""
    __slots__ = ("ty", "uid")

    def __init__(self, ty, uid):
        self.ty, self.uid = ty, uid

    def __repr__(self):
        return f"Lazy<{self.uid}: {self.ty}>"


class Agg(SymVal):
    """struct / tuple / closure / array; fields: dict idx -> SymVal; origin: uid providing missing fields"""
    __slots__ = ("ty", "fields", "origin", "names")

    def __init__(self, ty, fields, origin=None, names=None):
        self.ty, self.fields, self.origin, self.names = ty, fields, origin, names

    def __repr__(self):
        return f"Agg({self.ty}, {self.fields})"


class Enum(SymVal):
    """discr: z3 BV64; payloads: dict variant_name -> dict idx -> SymVal; origin as for Agg"""
    __slots__ = ("ty", "discr", "payloads", "origin")

    def __init__(self, ty, discr, payloads, origin=None):
        self.ty, self.discr, self.payloads, self.origin = ty, discr, payloads, origin

    def __repr__(self):
        return f"Enum({self.ty}, d={self.discr}, {self.payloads})"


class Ref(SymVal):
    __slots__ = ("ty", "cell", "path")

    def __init__(self, ty, cell, path=()):
        self.ty, self.cell, self.path = ty, cell, tuple(path)

    def __repr__(self):
        return f"Ref({self.cell}{list(self.path)})"


class FnItem(SymVal):
    __slots__ = ("ty", "text")

    def __init__(self, text):
        self.ty, self.text = "fn", text

    def __repr__(self):
        return f"FnItem({self.text})"


class StrConst(SymVal):
    __slots__ = ("ty", "s")

    def __init__(self, s):
        self.ty, self.s = "&str", s

    def __repr__(self):
        return f"Str({self.s!r})"


class Seq(SymVal):
    """Vec<T> / [T] / BTreeMap<K,V> of concrete length: items are cell ids (slices) or (kcell, vcell) pairs (maps)"""
    __slots__ = ("ty", "items", "kind")

    def __init__(self, ty, items, kind="slice"):
        self.ty, self.items, self.kind = ty, tuple(items), kind

    def __repr__(self):
        return f"Seq({self.kind}, {list(self.items)})"


class IterVal(SymVal):
    __slots__ = ("ty", "items", "kind", "f")

    def __init__(self, ty, items, kind, f=None):
        self.ty, self.items, self.kind, self.f = ty, tuple(items), kind, f


UNIT = Agg("()", {})


def bv64(n):
    return z3.BitVecVal(n, 64)


# ----------------------------------------------------------------------------- state

class State:
    def __init__(self):
        self.heap = {}        # cell id -> SymVal
        self.pc = []          # z3 Bool list
        self.known = {}       # z3 const (by id) -> (const, value) substitutions implied by pc
        self.trace = []       # oracle events
        self.visits = {}      # (frame id, bb) -> count
        self.notes = []
        self.ghost = {}       # free-form per-path model state for lemma-side models (e.g. variable maps)

    def fork(self):
        s = State()
        s.heap = dict(self.heap)
        s.pc = list(self.pc)
        s.known = dict(self.known)
        s.trace = list(self.trace)
        s.visits = dict(self.visits)
        s.notes = list(self.notes)
        s.ghost = {k: (dict(v) if isinstance(v, dict) else list(v) if isinstance(v, list) else v) for k, v in self.ghost.items()}
        return s

    def assume(self, c):
        self.pc.append(c)
        # record  const == value  facts for cheap simplification
        if z3.is_eq(c):
            a, b = c.arg(0), c.arg(1)
            if z3.is_bv_value(a) or z3.is_true(a) or z3.is_false(a):
                a, b = b, a
            if z3.is_const(a) and a.decl().kind() == z3.Z3_OP_UNINTERPRETED and (z3.is_bv_value(b) or z3.is_true(b) or z3.is_false(b)):
                self.known[a.get_id()] = (a, b)
        elif z3.is_const(c) and c.decl().kind() == z3.Z3_OP_UNINTERPRETED:
            self.known[c.get_id()] = (c, z3.BoolVal(True))
        elif z3.is_not(c) and z3.is_const(c.arg(0)) and c.arg(0).decl().kind() == z3.Z3_OP_UNINTERPRETED:
            self.known[c.arg(0).get_id()] = (c.arg(0), z3.BoolVal(False))

    def simp(self, e):
        if self.known:
            e = z3.substitute(e, *self.known.values())
        return z3.simplify(e)


class Frame:
    _ids = itertools.count()

    def __init__(self, fn):
        self.fn = fn
        self.id = next(Frame._ids)
        self.locals = {}

    def cell(self, local):
        c = self.locals.get(local)
        if c is None:
            c = f"f{self.id}:{local}"
            self.locals[local] = c
        return c


class Outcome:
    def __init__(self, kind, value=None, msg=None):
        self.kind, self.value, self.msg = kind, value, msg   # 'ret' | 'panic' | 'unreachable' | 'loopbound'

    def __repr__(self):
        return f"Outcome({self.kind}, {self.value if self.kind == 'ret' else self.msg})"


class Path:
    def __init__(self, st, outcome):
        self.st, self.outcome = st, outcome


# ----------------------------------------------------------------------------- executor

class Executor:
    def __init__(self, program, types, oracles=None, loop_bound=8, max_depth=24, solver_timeout_ms=20000):
        self.prog = program          # MirProgram
        self.types = types
        self.oracles = oracles or []   # [(regex, handler(ex, st, callee, args, dest_ty, frame) -> [(st, Outcome)])]
        self.models = list(DEFAULT_MODELS)
        from iters import ITER_MODELS
        self.models += ITER_MODELS
        self.loop_bound = loop_bound
        self.max_depth = max_depth
        self.invariants = []         # global facts (enum discriminant ranges, NotNan)
        self._inv_seen = set()
        self.counter = itertools.count()
        self.stats = {"solver_calls": 0, "solver_s": 0.0, "forks": 0, "fns_entered": {}, "models_used": {}, "oracle_calls": 0}
        self.solver_timeout_ms = solver_timeout_ms
        self.feas_timeout_ms = 400
        self.hint_mod = None
        self.opaque = []             # regexes of callees treated as uninterpreted pure functions
        self._divs = {}
        self.div_lemma = False

    # ------------------------------------------------------------------ fresh values
    def add_invariant(self, key, c):
        if key not in self._inv_seen:
            self._inv_seen.add(key)
            self.invariants.append(c)

    def fresh(self, ty, uid):
        ty = ty.strip()
        if ty in PRIM_INT:
            w, _ = PRIM_INT[ty]
            return Prim(ty, z3.BitVec(uid, w))
        if ty == "bool":
            return Prim(ty, z3.Bool(uid))
        if ty == "f64":
            return Prim(ty, z3.FP(uid, F64))
        if ty == "()":
            return UNIT
        return Lazy(ty, uid)

    def child_of(self, parent_uid, parent_ty, variant, idx, ty):
        uid = f"{parent_uid}.{variant}.{idx}" if variant else f"{parent_uid}.{idx}"
        v = self.fresh(ty, uid)
        if isinstance(v, Prim) and ty.strip() == "f64" and last_seg(parent_ty) == "NotNan":
            self.add_invariant(("notnan", uid), z3.Not(z3.fpIsNaN(v.e)))
        return v

    def discr_of(self, uid, ty):
        d = z3.BitVec(f"discr({uid})", 64)
        vs = self.types.enum_variants(ty, self.hint_mod)
        if vs:
            self.add_invariant(("discr", uid), z3.Or([d == bv64(k) for _, k in vs]) if vs else z3.BoolVal(False))
        return d

    def variant_index(self, ty, name):
        vs = self.types.enum_variants(ty, self.hint_mod)
        if vs is None:
            raise Unencodable(f"unknown enum type {ty!r} (variant {name})")
        for n, k in vs:
            if n == name:
                return k
        raise Unencodable(f"enum {ty!r} has no variant {name!r}")

    # ------------------------------------------------------------------ memory
    def read_cell(self, st, cell):
        return st.heap.get(cell)

    def walk(self, st, v, path):
        """follow a projection path inside value v (no deref here: derefs are resolved in eval_place)"""
        i, n = 0, len(path)
        while i < n:
            p = path[i]
            if p[0] == "v":
                # downcast followed by a field (or end: then return the enum itself)
                if i + 1 < n and path[i + 1][0] == "f":
                    f = path[i + 1]
                    v = self.enum_field(st, v, p[1], f[1], f[2])
                    i += 2
                    continue
                i += 1
                continue
            if p[0] == "f":
                v = self.agg_field(st, v, p[1], p[2])
                i += 1
                continue
            if p[0] == "i":
                v = self.index_value(st, v, p[1])
                i += 1
                continue
            raise Unencodable(f"projection {p}")
        return v

    def enum_field(self, st, v, variant, idx, ty):
        if isinstance(v, Lazy):
            return self.child_of(v.uid, v.ty, variant, idx, ty)
        if isinstance(v, Enum):
            pl = v.payloads.get(variant)
            if pl is not None and idx in pl:
                return pl[idx]
            if v.origin is not None:
                return self.child_of(v.origin, v.ty, variant, idx, ty)
            # reading a field of a variant the value was not built with: unconstrained (dead on feasible paths)
            return self.fresh(ty, f"undef{next(self.counter)}")
        raise Unencodable(f"downcast of non-enum value {v!r}")

    def agg_field(self, st, v, idx, ty):
        if isinstance(v, Lazy):
            return self.child_of(v.uid, v.ty, None, idx, ty)
        if isinstance(v, Agg):
            if idx in v.fields:
                return v.fields[idx]
            if v.origin is not None:
                return self.child_of(v.origin, v.ty, None, idx, ty)
            raise Unencodable(f"field {idx} of {v!r} not present")
        if isinstance(v, Ref) and idx == 0:
            # Box/Unique/NonNull wrappers around a pointer: .0 is the pointer itself
            return v
        if isinstance(v, Enum):
            raise Unencodable(f"field projection on enum without downcast: {v!r}")
        raise Unencodable(f"field {idx} of {v!r}")

    def index_value(self, st, v, idx):
        if isinstance(v, Seq) and isinstance(idx, int) and v.kind == "slice" and idx < len(v.items):
            return st.heap[v.items[idx]]
        if isinstance(v, Agg) and isinstance(idx, int):
            if idx in v.fields:
                return v.fields[idx]
        raise Unencodable(f"index {idx} into {v!r}")

    def update(self, st, v, path, new, ty_hint=None):
        """functional update of v at path with new"""
        if not path:
            return new
        p = path[0]
        if p[0] == "v":
            if len(path) >= 2 and path[1][0] == "f":
                f = path[1]
                old = self.enum_field(st, v, p[1], f[1], f[2])
                sub = self.update(st, old, path[2:], new)
                if isinstance(v, Lazy):
                    v = Enum(v.ty, self.discr_of(v.uid, v.ty), {}, origin=v.uid)
                pls = {k: dict(d) for k, d in v.payloads.items()}
                pls.setdefault(p[1], {})[f[1]] = sub
                return Enum(v.ty, v.discr, pls, v.origin)
            return self.update(st, v, path[1:], new)
        if p[0] == "f":
            old = self.agg_field(st, v, p[1], p[2])
            sub = self.update(st, old, path[1:], new)
            if isinstance(v, Lazy):
                v = Agg(v.ty, {}, origin=v.uid)
            if isinstance(v, Ref):
                raise Unencodable("write through pointer wrapper field")
            fields = dict(v.fields)
            fields[p[1]] = sub
            return Agg(v.ty, fields, v.origin, v.names)
        raise Unencodable(f"update through {p}")

    def deref_target(self, st, v):
        """value of reference/pointer/Box type -> (cell, path)"""
        if isinstance(v, Ref):
            return v.cell, v.path
        if isinstance(v, Lazy):
            pt = pointee(v.ty)
            cell = f"*{v.uid}"
            if cell not in st.heap:
                st.heap[cell] = self.fresh(pt or "?", f"{v.uid}*")
            return cell, ()
        if isinstance(v, Agg) and 0 in v.fields:
            return self.deref_target(st, v.fields[0])
        raise Unencodable(f"deref of {v!r}")

    def eval_place(self, st, frame, place):
        cell, path = frame.cell(place.local), ()
        for pr in place.proj:
            k = pr[0]
            if k == "deref":
                v = self.read(st, cell, path)
                cell, path = self.deref_target(st, v)
            elif k == "field":
                path = path + (("f", pr[1], pr[2]),)
            elif k == "downcast":
                path = path + (("v", pr[1]),)
            elif k == "constindex":
                if pr[3]:
                    raise Unencodable("from-end const index")
                cur = self.read(st, cell, path)
                if isinstance(cur, Seq) and cur.kind == "slice" and pr[1] < len(cur.items):
                    cell, path = cur.items[pr[1]], ()
                else:
                    path = path + (("i", pr[1]),)
            elif k == "index":
                iv = self.read(st, frame.cell(pr[1]), ())
                e = st.simp(iv.e)
                if z3.is_bv_value(e):
                    path = path + (("i", e.as_long()),)
                else:
                    raise Unencodable("symbolic index projection")
            else:
                raise Unencodable(f"projection {pr}")
        return cell, path

    def read(self, st, cell, path):
        v = st.heap.get(cell)
        if v is None:
            raise Unencodable(f"read of uninitialised cell {cell}")
        return self.walk(st, v, path)

    def write(self, st, cell, path, val):
        if not path:
            st.heap[cell] = val
            return
        v = st.heap.get(cell)
        if v is None:
            raise Unencodable(f"partial write into uninitialised cell {cell}")
        st.heap[cell] = self.update(st, v, path, val)

    # ------------------------------------------------------------------ operands / rvalues
    def const(self, text):
        t = text.strip()
        if t == "true":
            return Prim("bool", z3.BoolVal(True))
        if t == "false":
            return Prim("bool", z3.BoolVal(False))
        if t == "()":
            return UNIT
        m = re.fullmatch(r"(-?\d+)_(i8|i16|i32|i64|i128|isize|u8|u16|u32|u64|u128|usize)", t)
        if m:
            w, _ = PRIM_INT[m.group(2)]
            return Prim(m.group(2), z3.BitVecVal(int(m.group(1)), w))
        m = re.fullmatch(r"(-?[\d\.eE\+\-]+|-?inf|NaN)f64", t)
        if m:
            s = m.group(1)
            if s in ("inf", "-inf"):
                return Prim("f64", z3.fpMinusInfinity(F64) if s[0] == "-" else z3.fpPlusInfinity(F64))
            if s == "NaN":
                return Prim("f64", z3.fpNaN(F64))
            return Prim("f64", z3.FPVal(float(s), F64))
        if t.startswith('"') and t.endswith('"'):
            return StrConst(t[1:-1])
        m = re.fullmatch(r"'(.)'", t)
        if m:
            return Prim("char", z3.BitVecVal(ord(m.group(1)), 32))
        if t.startswith("ZeroSized: "):
            return Agg(t[11:], {})
        m = re.fullmatch(r"(i8|i16|i32|i64|i128|isize|u8|u16|u32|u64|u128|usize)::(MIN|MAX)", t)
        if m:
            w, sg = PRIM_INT[m.group(1)]
            if m.group(2) == "MIN":
                n = -(1 << (w - 1)) if sg else 0
            else:
                n = (1 << (w - 1)) - 1 if sg else (1 << w) - 1
            return Prim(m.group(1), z3.BitVecVal(n, w))
        if re.search(r"::promoted\[\d+\]$", t):
            # promoted constant (`&CONST` lifted by rustc): an unknown but fixed value behind a reference
            return Lazy("&?promoted", t)
        # function items / other constants: uninterpreted but stable by text
        if re.match(r"[\w<{]", t):
            return FnItem(t)
        raise Unencodable(f"constant {t!r}")

    def operand(self, st, frame, op):
        if op.kind == "const":
            v = self.const(op.text)
            if isinstance(v, Lazy) and v.ty == "&?promoted":
                pv = self.eval_promoted(st, frame, v.uid)
                if pv is not None:
                    return pv
            if isinstance(v, FnItem) and re.fullmatch(r"[\w:]+", v.text):
                # a named constant of the crate with a literal value
                cands = [c for c in self.prog.named_consts.get(v.text.split("::")[-1], [])
                         if c.name == v.text or v.text.endswith("::" + c.name) or c.name.endswith("::" + v.text)]
                if len(cands) == 1 and cands[0].const_literal is not None:
                    try:
                        return self.const(cands[0].const_literal)
                    except Unencodable:
                        pass
                elif len(cands) == 1:
                    # a constant computed by a straight-line body: run it (cached per state like promoteds)
                    key = ("named_const", cands[0].name, cands[0].text_hash)
                    cache = st.ghost.setdefault("promoted_cache", {})
                    if key in cache:
                        return cache[key]
                    try:
                        res = self.exec_fn(st, cands[0], [], 0)
                    except Unencodable:
                        res = []
                    if len(res) == 1 and res[0][1].kind == "ret" and res[0][0] is st:
                        cache[key] = res[0][1].value
                        return res[0][1].value
            if isinstance(v, FnItem):
                sm = re.fullmatch(r"(?:core|std)::f64::(?:<impl f64>::|consts::)?(\w+)", v.text)
                if sm and sm.group(1) in STD_F64_CONSTS:
                    return Prim("f64", z3.FPVal(STD_F64_CONSTS[sm.group(1)], F64))
            return v
        cell, path = self.eval_place(st, frame, op.place)
        return self.read(st, cell, path)

    def eval_promoted(self, st, frame, text):
        """run the (straight-line) body of a promoted constant owned by the current function, when the dump has it;
        None = leave it an unknown fixed value"""
        k = re.search(r"(promoted\[\d+\])$", text).group(1)
        owner = frame.fn.name
        cands = self.prog.promoted.get(f"{owner}::{k}", [])
        if len(cands) != 1:
            return None
        key = ("promoted", cands[0].name, cands[0].text_hash)
        cache = st.ghost.setdefault("promoted_cache", {})
        if key in cache:
            return cache[key]
        try:
            res = self.exec_fn(st, cands[0], [], 0)
        except Unencodable:
            return None
        if len(res) != 1 or res[0][1].kind != "ret" or res[0][0] is not st:
            return None
        cache[key] = res[0][1].value
        return res[0][1].value

    def as_prim(self, v, what=""):
        if isinstance(v, Prim):
            return v
        raise Unencodable(f"expected primitive {what}, got {v!r}")

    def binop(self, st, op, a, b):
        a, b = self.as_prim(a, op), self.as_prim(b, op)
        ty = a.ty
        x, y = a.e, b.e
        if ty == "f64":
            if op == "Add":
                return Prim(ty, z3.fpAdd(RNE, x, y))
            if op == "Sub":
                return Prim(ty, z3.fpSub(RNE, x, y))
            if op == "Mul":
                return Prim(ty, z3.fpMul(RNE, x, y))
            if op == "Div":
                return Prim(ty, z3.fpDiv(RNE, x, y))
            if op == "Rem":
                t = FMOD(x, y)
                # what IEEE-754 / C `fmod` fixes about the result whatever the operands: it is NaN exactly when an
                # operand is NaN, the dividend is infinite or the divisor is zero; otherwise it is finite, smaller in
                # magnitude than the divisor (or equal to a dividend that is already smaller) and never larger than the dividend
                nan_iff = z3.Or(z3.fpIsNaN(x), z3.fpIsNaN(y), z3.fpIsInf(x), z3.fpIsZero(y))
                self.add_invariant(("fmod", t.get_id()), z3.And(z3.fpIsNaN(t) == nan_iff,
                                                                z3.Implies(z3.Not(nan_iff), z3.And(z3.Not(z3.fpIsInf(t)), z3.fpLEQ(z3.fpAbs(t), z3.fpAbs(x)),
                                                                                                   z3.Implies(z3.Not(z3.fpIsInf(y)), z3.fpLT(z3.fpAbs(t), z3.fpAbs(y)))))))
                return Prim(ty, t)
            cmp = {"Eq": z3.fpEQ, "Ne": lambda p, q: z3.Not(z3.fpEQ(p, q)), "Lt": z3.fpLT, "Le": z3.fpLEQ, "Gt": z3.fpGT, "Ge": z3.fpGEQ}
            if op in cmp:
                return Prim("bool", cmp[op](x, y))
            raise Unencodable(f"float binop {op}")
        if ty == "bool":
            f = {"Eq": lambda p, q: p == q, "Ne": lambda p, q: p != q, "BitAnd": z3.And, "BitOr": z3.Or, "BitXor": z3.Xor}.get(op)
            if f:
                return Prim("bool", f(x, y))
            raise Unencodable(f"bool binop {op}")
        if ty not in PRIM_INT:
            raise Unencodable(f"binop {op} on {ty}")
        w, signed = PRIM_INT[ty]
        if op in ("Shl", "Shr", "ShlUnchecked", "ShrUnchecked") and y.size() != w:
            y = z3.ZeroExt(w - y.size(), y) if y.size() < w else z3.Extract(w - 1, 0, y)
        if op in ("Add", "AddUnchecked"):
            return Prim(ty, x + y)
        if op in ("Sub", "SubUnchecked"):
            return Prim(ty, x - y)
        if op in ("Mul", "MulUnchecked"):
            return Prim(ty, x * y)
        if op in ("Div", "Rem") and not signed and getattr(self, "div_lemma", False) and z3.is_bv_value(z3.simplify(y)) and not z3.is_bv_value(z3.simplify(x)):
            # unsigned division by a constant: fresh quotient/remainder tied by the division lemma
            # (a = q*d + r, r < d, q*d does not overflow) instead of a bit-blasted 64-bit divider
            d = z3.simplify(y).as_long()
            key = ("divlemma", x.get_id(), d)
            if key not in self._divs:
                n = len(self._divs)
                q, r = z3.BitVec(f"q{n}", w), z3.BitVec(f"r{n}", w)
                self._divs[key] = (q, r, x)
                dv = z3.BitVecVal(d, w)
                self.invariants.append(z3.And(x == q * dv + r, z3.ULT(r, dv), z3.ULE(q, x), z3.BVMulNoOverflow(q, dv, False)))
            q, r, _ = self._divs[key]
            return Prim(ty, q if op == "Div" else r)
        if op == "Div":
            return Prim(ty, x / y if signed else z3.UDiv(x, y))
        if op == "Rem":
            return Prim(ty, z3.SRem(x, y) if signed else z3.URem(x, y))
        if op == "BitAnd":
            return Prim(ty, x & y)
        if op == "BitOr":
            return Prim(ty, x | y)
        if op == "BitXor":
            return Prim(ty, x ^ y)
        if op in ("Shl", "ShlUnchecked"):
            return Prim(ty, x << y)
        if op in ("Shr", "ShrUnchecked"):
            return Prim(ty, (x >> y) if signed else z3.LShR(x, y))
        if op == "Eq":
            return Prim("bool", x == y)
        if op == "Ne":
            return Prim("bool", x != y)
        if op == "Lt":
            return Prim("bool", x < y if signed else z3.ULT(x, y))
        if op == "Le":
            return Prim("bool", x <= y if signed else z3.ULE(x, y))
        if op == "Gt":
            return Prim("bool", x > y if signed else z3.UGT(x, y))
        if op == "Ge":
            return Prim("bool", x >= y if signed else z3.UGE(x, y))
        if op in ("AddWithOverflow", "SubWithOverflow", "MulWithOverflow"):
            ext = z3.SignExt if signed else z3.ZeroExt
            wx, wy = ext(w, x), ext(w, y)
            full = {"AddWithOverflow": wx + wy, "SubWithOverflow": wx - wy, "MulWithOverflow": wx * wy}[op]
            res = z3.Extract(w - 1, 0, full)
            ovf = ext(w, res) != full
            return Agg(f"({ty}, bool)", {0: Prim(ty, res), 1: Prim("bool", ovf)})
        if op == "Cmp":
            lt = (x < y) if signed else z3.ULT(x, y)
            d = z3.If(lt, z3.BitVecVal(-1, 64), z3.If(x == y, bv64(0), bv64(1)))
            return Enum("std::cmp::Ordering", d, {})
        raise Unencodable(f"int binop {op}")

    def cast(self, st, kind, v, to):
        to = to.strip()
        if kind in ("Transmute", "PtrToPtr") or kind.startswith("PointerCoercion") or kind in ("PointerExposeProvenance", "PointerWithExposedProvenance", "FnPtrToPtr"):
            if isinstance(v, Lazy):
                return Lazy(to, v.uid)
            if isinstance(v, Ref):
                return Ref(to, v.cell, v.path)
            if isinstance(v, Agg) and 0 in v.fields and len(v.fields) == 1 and isinstance(v.fields[0], (Ref, Lazy)):
                return self.cast(st, kind, v.fields[0], to)
            if isinstance(v, Prim) and to in PRIM_INT and v.ty in PRIM_INT and PRIM_INT[to][0] == PRIM_INT[v.ty][0]:
                return Prim(to, v.e)
            return v
        v = self.as_prim(v, "cast")
        if kind == "IntToInt":
            if v.ty == "bool":
                w2, _ = PRIM_INT[to]
                return Prim(to, z3.If(v.e, z3.BitVecVal(1, w2), z3.BitVecVal(0, w2)))
            w1, s1 = PRIM_INT[v.ty]
            w2, _ = PRIM_INT[to]
            if w2 == w1:
                return Prim(to, v.e)
            if w2 < w1:
                return Prim(to, z3.Extract(w2 - 1, 0, v.e))
            return Prim(to, (z3.SignExt if s1 else z3.ZeroExt)(w2 - w1, v.e))
        if kind == "IntToFloat" and to == "f64":
            _, s1 = PRIM_INT[v.ty]
            return Prim("f64", z3.fpSignedToFP(RNE, v.e, F64) if s1 else z3.fpUnsignedToFP(RNE, v.e, F64))
        if kind == "FloatToInt" and v.ty == "f64" and to in PRIM_INT:
            w2, s2 = PRIM_INT[to]
            x = v.e
            if s2:
                lo, hi = -(1 << (w2 - 1)), (1 << (w2 - 1)) - 1
                conv = z3.fpToSBV(z3.RTZ(), x, z3.BitVecSort(w2))
            else:
                lo, hi = 0, (1 << w2) - 1
                conv = z3.fpToUBV(z3.RTZ(), x, z3.BitVecSort(w2))
            lo_f = z3.fpSignedToFP(RNE, z3.BitVecVal(lo, w2), F64) if s2 else z3.FPVal(0.0, F64)
            # 2^(w-1) (signed) / 2^w (unsigned) are exactly representable
            hi_excl = z3.FPVal(float(1 << (w2 - 1 if s2 else w2)), F64)
            r = z3.If(z3.fpIsNaN(x), z3.BitVecVal(0, w2),
                      z3.If(z3.fpLT(x, lo_f) if s2 else z3.fpLT(x, z3.FPVal(0.0, F64)), z3.BitVecVal(lo, w2),
                            z3.If(z3.fpGEQ(x, hi_excl), z3.BitVecVal(hi, w2), conv)))
            return Prim(to, r)
        raise Unencodable(f"cast {kind} {v.ty} -> {to}")

    def split_path(self, path):
        """'a::b::<T>::C' -> ['a','b::<T>' ...] split on top-level '::'"""
        segs, depth, cur = [], 0, []
        i, n = 0, len(path)
        while i < n:
            c = path[i]
            if c in "<([{":
                depth += 1
            elif c in ")]}":
                depth -= 1
            elif c == ">" and path[i - 1] not in "-=":
                depth -= 1
            if depth == 0 and path.startswith("::", i):
                segs.append("".join(cur))
                cur = []
                i += 2
                continue
            cur.append(c)
            i += 1
        segs.append("".join(cur))
        # merge turbofish segments '<..>' into the previous one
        out = []
        for s in segs:
            if s.startswith("<") and out and not s.startswith("<impl") and " as " not in s:
                out[-1] += "::" + s
            else:
                out.append(s)
        return out

    def aggregate(self, st, frame, kind, path, names, ops):
        vals = [self.operand(st, frame, o) for o in ops]
        if kind == "tuple":
            if not vals:
                return UNIT
            return Agg("(" + ", ".join(v.ty for v in vals) + ")", dict(enumerate(vals)))
        if kind == "array":
            return Agg("[..]", dict(enumerate(vals)))
        if kind == "struct" and path.startswith("{closure@"):
            return Agg(path, dict(enumerate(vals)), names=names)
        segs = self.split_path(path)
        if len(segs) >= 2:
            ety = "::".join(segs[:-1])
            vname = segs[-1]
            ety_clean = re.sub(r"::<", "<", ety)
            vs = self.types.enum_variants(ety_clean, self.hint_mod)
            if vs is not None and any(n == vname for n, _ in vs):
                k = [d for n, d in vs if n == vname][0]
                return Enum(ety_clean, bv64(k), {vname: dict(enumerate(vals))})
        ty = re.sub(r"::<", "<", path)
        return Agg(ty, dict(enumerate(vals)), names=names)

    def rvalue(self, st, frame, rv, dest_ty=None):
        k = rv[0]
        if k == "use":
            return self.operand(st, frame, rv[1])
        if k == "ref":
            cell, path = self.eval_place(st, frame, rv[2])
            return Ref(dest_ty or "&?", cell, path)
        if k == "discriminant":
            cell, path = self.eval_place(st, frame, rv[1])
            v = self.read(st, cell, path)
            return Prim("isize", self.discriminant(st, v))
        if k == "binop":
            return self.binop(st, rv[1], self.operand(st, frame, rv[2]), self.operand(st, frame, rv[3]))
        if k == "unop":
            v = self.operand(st, frame, rv[2])
            if rv[1] == "Not":
                v = self.as_prim(v)
                return Prim(v.ty, z3.Not(v.e) if v.ty == "bool" else ~v.e)
            if rv[1] == "Neg":
                v = self.as_prim(v)
                return Prim(v.ty, z3.fpNeg(v.e) if v.ty == "f64" else -v.e)
            if rv[1] == "PtrMetadata":
                tgt = v
                if isinstance(v, Ref) or (isinstance(v, Lazy) and is_ref(v.ty)):
                    c, p = self.deref_target(st, v)
                    tgt = self.read(st, c, p)
                if isinstance(tgt, Seq):
                    return Prim("usize", z3.BitVecVal(len(tgt.items), 64))
                raise Unencodable(f"PtrMetadata of {tgt!r} (a bounded list must be supplied by the lemma)")
            raise Unencodable(f"unop {rv[1]}")
        if k == "cast":
            return self.cast(st, rv[1], self.operand(st, frame, rv[2]), rv[3])
        if k == "aggregate":
            return self.aggregate(st, frame, rv[1], rv[2], rv[3], rv[4])
        if k == "len":
            cell, path = self.eval_place(st, frame, rv[1])
            v = self.read(st, cell, path)
            return self.len_of(st, v)
        raise Unencodable(f"rvalue {rv}")

    def len_of(self, st, v):
        raise Unencodable("Len")

    def discriminant(self, st, v):
        if isinstance(v, Enum):
            return v.discr
        if isinstance(v, Lazy):
            return self.discr_of(v.uid, v.ty)
        if isinstance(v, Ref):
            # a match guard's by-reference binding of a moved scrutinee: look through the reference
            return self.discriminant(st, self.read(st, v.cell, v.path))
        raise Unencodable(f"discriminant of {v!r}")

    # ------------------------------------------------------------------ solver
    def feasible(self, st, extra=None):
        s = z3.Solver()
        s.set("timeout", self.feas_timeout_ms)
        for c in self.invariants:
            s.add(c)
        for c in st.pc:
            s.add(c)
        if extra is not None:
            s.add(extra)
        import time
        t = time.time()
        r = s.check()
        self.stats["solver_calls"] += 1
        self.stats["solver_s"] += time.time() - t
        if r == z3.unknown:
            # over-approximate: an undecided branch is explored (sound for proving; the path is
            # marked so that reachability/vacuity reports do not count it as a witness)
            self.stats["feasibility_unknown"] = self.stats.get("feasibility_unknown", 0) + 1
            st.notes.append("feasibility-unknown")
            return True
        return r == z3.sat

    # ------------------------------------------------------------------ running
    def run(self, fn, args, st=None):
        """symbolically execute fn on args; returns list of Path"""
        st = st or State()
        m = re.search(r"<impl at src/([^:>]+)\.rs:", fn.name)
        if m and self.hint_mod is None:
            mod = m.group(1).replace("/", "::")
            self.hint_mod = mod[:-5] if mod.endswith("::mod") else mod
        res = self.exec_fn(st, fn, args, 0)
        return [Path(s, o) for s, o in res]

    def exec_fn(self, st, fn, args, depth):
        parse_body(fn)
        if fn._body is None:
            raise Unencodable(f"body of {fn.name} not loaded")
        if depth > self.max_depth:
            raise Unencodable(f"call depth exceeded at {fn.name}")
        self.stats["fns_entered"][fn.name] = fn.text_hash
        frame = Frame(fn)
        if len(args) != len(fn.params):
            raise Unencodable(f"arity mismatch calling {fn.name}: {len(args)} vs {len(fn.params)}")
        for (p, _), a in zip(fn.params, args):
            st.heap[frame.cell(p)] = a
        # zero-sized closures are never assigned in MIR (only `&_n` is taken)
        for loc, ty in fn.locals.items():
            if ty.startswith("{closure@") and loc not in dict(fn.params):
                st.heap[frame.cell(loc)] = Agg(ty, {})
        return self.run_blocks(st, frame, "bb0", depth)

    def run_blocks(self, st, frame, bbname, depth):
        fn = frame.fn
        results = []
        work = [(st, bbname)]
        while work:
            st, bb = work.pop()
            key = (frame.id, bb)
            st.visits[key] = st.visits.get(key, 0) + 1
            if st.visits[key] > self.loop_bound:
                results.append((st, Outcome("loopbound", msg=f"{fn.name} {bb}")))
                continue
            blk = fn.blocks.get(bb)
            if blk is None:
                raise Unencodable(f"missing block {bb} in {fn.name}")
            for stmt in blk.stmts:
                self.exec_stmt(st, frame, stmt)
            t = blk.term
            if t is None:
                raise Unencodable(f"block {bb} of {fn.name} has no terminator")
            k = t[1]
            if k == "goto":
                work.append((st, t[2]))
            elif k == "return":
                rv = st.heap.get(frame.cell("_0"), UNIT)
                results.append((st, Outcome("ret", rv)))
            elif k == "unreachable":
                results.append((st, Outcome("unreachable", msg=f"{fn.name} {bb}")))
            elif k == "resume":
                results.append((st, Outcome("panic", msg="resume")))
            elif k == "drop":
                tgt = t[3].get("return")
                if tgt:
                    work.append((st, tgt))
                else:
                    raise Unencodable("drop without return target")
            elif k == "switch":
                for s2, tgt in self.switch(st, frame, t[2], t[3]):
                    work.append((s2, tgt))
            elif k == "assert":
                c = self.as_prim(self.operand(st, frame, t[2]), "assert").e
                want = c if t[3] else z3.Not(c)
                ok_t = t[5].get("success")
                cs = st.simp(want)
                if z3.is_true(cs):
                    work.append((st, ok_t))
                elif z3.is_false(cs):
                    results.append((st, Outcome("panic", msg=f"assert {t[4]} in {fn.name}")))
                else:
                    can_fail = self.feasible(st, z3.Not(want))
                    can_pass = self.feasible(st, want)
                    if can_fail:
                        s2 = st.fork() if can_pass else st
                        s2.assume(z3.Not(want))
                        results.append((s2, Outcome("panic", msg=f"assert {t[4]} in {fn.name}")))
                        self.stats["forks"] += 1
                    if can_pass:
                        st.assume(want)
                        work.append((st, ok_t))
            elif k == "call":
                dest, callee, ops, targets = t[2], t[3], t[4], t[5]
                args = [self.operand(st, frame, o) for o in ops]
                dest_ty = self.place_type(frame, dest)
                outs = self.call(st, callee, args, dest_ty, frame, depth)
                for s2, o in outs:
                    if o.kind == "ret":
                        tgt = targets.get("return")
                        if tgt is None:
                            # diverging call that "returned": treat as panic-like end
                            results.append((s2, Outcome("panic", msg=f"diverging call {callee} returned")))
                            continue
                        cell, path = self.eval_place(s2, frame, dest)
                        self.write(s2, cell, path, o.value)
                        work.append((s2, tgt))
                    else:
                        results.append((s2, o))
            else:
                raise Unencodable(f"terminator {t}")
        return results

    def place_type(self, frame, place):
        if not place.proj:
            return frame.fn.locals.get(place.local, "?")
        last = place.proj[-1]
        if last[0] == "field":
            return last[2]
        return "?"

    def exec_stmt(self, st, frame, stmt):
        k = stmt[0]
        if k == "nop":
            return
        if k == "assign":
            place, rv = stmt[1], stmt[2]
            if rv[0] == "unparsed":
                raise Unencodable(f"unparsed rvalue {rv[1]!r} in {frame.fn.name}")
            val = self.rvalue(st, frame, rv, self.place_type(frame, place))
            cell, path = self.eval_place(st, frame, place)
            self.write(st, cell, path, val)
            return
        if k == "setdiscr":
            raise Unencodable("SetDiscriminant")
        raise Unencodable(f"statement {stmt}")

    def switch(self, st, frame, op, targets):
        v = self.as_prim(self.operand(st, frame, op), "switchInt")
        e = st.simp(v.e)
        out = []
        is_bool = v.ty == "bool"

        def cond_for(val):
            if is_bool:
                return (z3.Not(v.e) if int(val) == 0 else v.e)
            return v.e == z3.BitVecVal(int(val), v.e.size())
        # concrete?
        if z3.is_bv_value(e) or z3.is_true(e) or z3.is_false(e):
            cv = (1 if z3.is_true(e) else 0 if z3.is_false(e) else (e.as_signed_long()))
            for val, bb in targets:
                if val == "otherwise":
                    return [(st, bb)]
                iv = int(val)
                w = 1 if is_bool else e.size()
                if iv == cv or (not is_bool and (iv % (1 << w)) == (cv % (1 << w))):
                    return [(st, bb)]
            return []
        listed = []
        feas = []
        for val, bb in targets:
            if val == "otherwise":
                c = z3.And([z3.Not(x) for x in listed]) if listed else z3.BoolVal(True)
            else:
                c = cond_for(val)
                listed.append(c)
            if self.feasible(st, c):
                feas.append((c, bb))
        for i, (c, bb) in enumerate(feas):
            s2 = st.fork() if i < len(feas) - 1 else st
            if z3.is_and(c):
                for ch in c.children():
                    s2.assume(ch)
            else:
                s2.assume(c)
            out.append((s2, bb))
        if len(feas) > 1:
            self.stats["forks"] += len(feas) - 1
        return out

    # ------------------------------------------------------------------ calls
    def call(self, st, callee, args, dest_ty, frame, depth):
        for rx, h in self.oracles:
            if rx.search(callee):
                self.stats["oracle_calls"] += 1
                return h(self, st, callee, args, dest_ty, frame, depth)
        for rx in self.opaque:
            if rx.search(callee):
                self.stats.setdefault("opaque_used", {})
                self.stats["opaque_used"][rx.pattern] = self.stats["opaque_used"].get(rx.pattern, 0) + 1
                return [(st, Outcome("ret", self.opaque_result(st, callee, args, dest_ty)))]
        for rx, h in self.models:
            if rx.search(callee):
                self.stats["models_used"][h.__name__] = self.stats["models_used"].get(h.__name__, 0) + 1
                return h(self, st, callee, args, dest_ty, frame, depth)
        # read-only std observers on containers/strings the lemma did not model: arbitrary answer (over-approximation)
        if STD_OBSERVER.search(callee) and not any(isinstance(a, Ref) and a.ty.startswith("&mut") for a in args):
            self.stats.setdefault("opaque_used", {})
            self.stats["opaque_used"]["<std observer>"] = self.stats["opaque_used"].get("<std observer>", 0) + 1
            return [(st, Outcome("ret", self.opaque_result(st, callee, args, dest_ty)))]
        fn = self.prog.resolve(callee, args, frame.fn)
        if fn is not None:
            return self.exec_fn(st, fn, args, depth + 1)
        # tuple-variant / tuple-struct constructor used as a function item (e.g. `Value::Float`)
        segs = self.split_path(callee)
        if len(segs) >= 2:
            ety = re.sub(r"::<", "<", "::".join(segs[:-1]))
            vs = self.types.enum_variants(ety, self.hint_mod)
            if vs is not None and any(n == segs[-1] for n, _ in vs):
                return [(st, Outcome("ret", self.mk_enum(ety, segs[-1], list(args))))]
        # last resort for std / core / alloc functions that no model covers: an arbitrary result of the declared type,
        # and every `&mut` argument's target havocked.  Over-approximates (sound for proving; a spurious counterexample
        # cannot reproduce natively and ends as inconclusive).  Every use is recorded in the evidence.
        if STD_ANY.search(callee):
            self.stats.setdefault("std_fallback", {})
            self.stats["std_fallback"][callee[:120]] = self.stats["std_fallback"].get(callee[:120], 0) + 1
            n = next(self.counter)
            for a in args:
                if isinstance(a, Ref) and a.ty.startswith("&mut"):
                    try:
                        old_v = self.read(st, a.cell, a.path)
                        self.write(st, a.cell, a.path, self.fresh(getattr(old_v, "ty", "?"), f"havoc{n}[{callee.split('::')[-1]}]"))
                    except Unencodable:
                        pass
            return [(st, Outcome("ret", self.fresh(dest_ty, f"{callee.split('::')[-1]}#{n}({','.join(self.val_name(st, a)[:40] for a in args)})")))]
        raise Unencodable(f"unknown callee {callee!r} (called from {frame.fn.name})")

    def val_name(self, st, v):
        if isinstance(v, Lazy):
            return v.uid
        if isinstance(v, Ref):
            try:
                return "&" + self.val_name(st, self.read(st, v.cell, v.path))
            except Unencodable:
                return f"&{v.cell}"
        if isinstance(v, Prim):
            return str(v.e)
        if isinstance(v, StrConst):
            return repr(v.s)
        if isinstance(v, FnItem):
            return v.text
        if isinstance(v, Enum):
            e = st.simp(v.discr)
            if z3.is_bv_value(e):
                vs = self.types.enum_variants(v.ty, self.hint_mod) or []
                nm = [n for n, k in vs if k == e.as_signed_long()]
                if nm:
                    pl = v.payloads.get(nm[0], {})
                    return nm[0] + ("(" + ",".join(self.val_name(st, pl[i]) for i in sorted(pl)) + ")" if pl else "")
            return f"enum#{id(v) % 10000}"
        if isinstance(v, Agg):
            return "{" + ",".join(self.val_name(st, v.fields[i]) for i in sorted(v.fields)) + "}"
        return "?"

    def opaque_result(self, st, callee, args, dest_ty):
        """uninterpreted *function*: same callee on same-named arguments gives the same named term"""
        short = re.sub(r"<impl at [^>]*>", "", callee)
        short = short.split("::")[-1] if "<" not in short.split("::")[-1] else short
        name = f"{short}({','.join(self.val_name(st, a) for a in args)})"
        return self.fresh(dest_ty, name)

    def call_value(self, st, f, args, dest_ty, frame, depth):
        """call a function value: closure aggregate (by value or behind a Ref), or fn item"""
        target = f
        if isinstance(f, Ref):
            target = self.read(st, f.cell, f.path)
        if isinstance(target, FnItem):
            return self.call(st, target.text, args, dest_ty, frame, depth)
        if isinstance(target, (Agg, Lazy)) and target.ty.startswith("{closure@"):
            fn = self.prog.closure_body(target.ty)
            if fn is None:
                raise Unencodable(f"no body for closure {target.ty}")
            parse_body(fn)
            # first param may be by value, & or &mut
            pty = fn.params[0][1]
            if pty.startswith("&"):
                if isinstance(f, Ref):
                    selfv = f
                else:
                    c = f"clo{next(self.counter)}"
                    st.heap[c] = target
                    selfv = Ref(pty, c, ())
            else:
                selfv = target
            return self.exec_fn(st, fn, [selfv] + list(args), depth + 1)
        for rx, h in self.oracles:
            if rx.search("<callable " + getattr(target, "ty", "?") + ">"):
                return h(self, st, "<callable " + target.ty + ">", [f] + list(args), dest_ty, frame, depth)
        raise Unencodable(f"call of non-function value {target!r}")

    # helpers for models
    def mk_enum(self, ty, variant, fields):
        k = self.variant_index(ty, variant)
        return Enum(ty, bv64(k), {variant: dict(enumerate(fields))})

    def case_split(self, st, v, ty_hint=None):
        """fork on the discriminant of enum value v: yields (state, variant_name)"""
        ty = v.ty if v.ty not in ("?",) else (ty_hint or "?")
        vs = self.types.enum_variants(ty, self.hint_mod)
        if vs is None and ty_hint:
            vs = self.types.enum_variants(ty_hint, self.hint_mod)
        if vs is None:
            raise Unencodable(f"case split on unknown enum {ty}")
        d = self.discriminant(st, v)
        e = st.simp(d)
        if z3.is_bv_value(e):
            cv = e.as_signed_long()
            return [(st, n) for n, k in vs if k == cv]
        feas = [(n, k) for n, k in vs if self.feasible(st, d == bv64(k))]
        out = []
        for i, (n, k) in enumerate(feas):
            s2 = st.fork() if i < len(feas) - 1 else st
            s2.assume(d == bv64(k))
            out.append((s2, n))
        if len(feas) > 1:
            self.stats["forks"] += len(feas) - 1
        return out


FMOD = z3.Function("fmod", F64, F64, F64)
STD_ANY = re.compile(r"^(std|core|alloc)::|^<[^>]* as (std|core|alloc)::|^(Vec|String|Option|Result|Box|BTreeMap|BTreeSet|HashMap|HashSet|VecDeque|Rc|Arc|Cow)::<|^(String|str)::\w+$"
                     r"|^<(Vec|String|Box|BTreeMap|BTreeSet|HashMap|VecDeque|std::|core::|alloc::)[^>]* as \w+(<.*>)?>::\w+$|^<(str|\[.*\]|&str|&\[.*\]) as \w+(<.*>)?>::\w+$")
STD_OBSERVER = re.compile(r"^(std::|core::|alloc::)?(vec::)?(Vec|String|BTreeMap|HashMap|VecDeque|Option|str)(::<.*>)?::(is_empty|len|is_none|is_some|contains|contains_key|first|last|as_str|as_bytes|capacity)$"
                          r"|<impl (str|\[.*\])>::(is_empty|len|contains|starts_with|ends_with)(::<.*>)?$")


# ----------------------------------------------------------------------------- program index

class MirProgram:
    def __init__(self, fns, types):
        self.fns = fns
        self.types = types
        self.by_key = {}       # (trait|None, type, method) -> [fn]
        self.free = {}         # last segment -> [fn]
        self.closures = {}     # '{closure@...}' -> fn
        self.promoted = {}     # 'owner::promoted[k]' -> fn
        self.named_consts = {}  # last path segment -> [fn]
        for f in fns:
            if getattr(f, "is_promoted", False):
                self.promoted.setdefault(f.name, []).append(f)
                continue
            if getattr(f, "is_named_const", False):
                self.named_consts.setdefault(f.name.split("::")[-1], []).append(f)
                continue
            self._index(f)

    IMPL_RE = re.compile(r"^(?P<mod>.*?)<impl at (?P<file>[^:>]+):(?P<line>\d+):(?P<col>\d+): \d+:\d+>::(?P<rest>.*)$")

    def _index(self, f):
        name = f.name
        if f.params:
            m = re.match(r"^&?(?:mut )?(\{closure@[^}]*\})", f.params[0][1])
            if m and "{closure#" in name:
                self.closures[m.group(1)] = f
        if "{closure#" in name:
            return
        m = self.IMPL_RE.match(name)
        if m:
            key = (m.group("file"), int(m.group("line")))
            tr_ty = self.types.impls.get(key)
            if tr_ty is None:
                tr_ty = self.types.derives.get((m.group("file"), int(m.group("line")), int(m.group("col"))))
            method = m.group("rest")
            if tr_ty:
                self.by_key.setdefault((tr_ty[0], tr_ty[1], method), []).append(f)
            f.impl_of = tr_ty
            return
        self.free.setdefault(name.split("::")[-1], []).append(f)

    def closure_body(self, ty):
        m = re.match(r"^&?(?:mut )?(\{closure@[^}]*\})", ty)
        return self.closures.get(m.group(1)) if m else None

    def find(self, trait, ty, method):
        c = self.by_key.get((trait, ty, method), [])
        return c

    def resolve(self, callee, args, caller=None):
        callee = callee.strip()
        # strip trailing turbofish generics:  name::<...>
        base = callee
        m = re.match(r"^(.*)::<.*>$", base)
        if m and not base.startswith("<") or (m and base.count(" as ") and base.rfind("::<") > base.rfind(">::")):
            base = m.group(1)
        # <T as Trait<..>>::method
        m = re.match(r"^<(.*) as (.*)>::(\w+)$", base)
        if m:
            ty, tr, method = last_seg(m.group(1).lstrip("&").strip()), last_seg(m.group(2)), m.group(3)
            cands = self.by_key.get((tr, ty, method), [])
            if not cands:
                # default method of the trait: body is named `Trait::method`
                dflt = [f for f in self.free.get(method, []) if f.name.split("::")[-2:] == [tr, method]]
                if len(dflt) == 1:
                    return dflt[0]
            return self._pick(cands, args, m.group(2))
        # path::<impl Type>::method
        m = re.match(r"^(.*)<impl (.*)>::(\w+)$", base)
        if m:
            ty = last_seg(m.group(2).lstrip("&").strip())
            cands = self.by_key.get((None, ty, m.group(3)), [])
            return self._pick(cands, args, None)
        # Type::<..>::method  or free function path
        segs = [s for s in re.split(r"::(?![^<]*>)", base) if s]
        segs = [s for s in segs if not s.startswith("<")]
        if len(segs) >= 2:
            ty, method = last_seg(segs[-2]), segs[-1]
            cands = self.by_key.get((None, ty, method), [])
            if cands:
                return self._pick(cands, args, None)
        if segs:
            cands = self.free.get(segs[-1], [])
            if len(cands) > 1 and len(segs) >= 2:
                c2 = [c for c in cands if c.name.endswith("::".join(segs[-2:]))]
                cands = c2 or cands
            if len(cands) > 1:
                c2 = [c for c in cands if len(c.params) == len(args)]
                cands = c2 or cands
            if len(cands) == 1:
                return cands[0]
        return None

    def _pick(self, cands, args, trait_text):
        if not cands:
            return None
        if len(cands) == 1:
            return cands[0]
        c2 = [c for c in cands if len(c.params) == len(args)]
        if len(c2) == 1:
            return c2[0]
        # disambiguate by first parameter type vs argument type (e.g. impl From<bool> for Value)
        if args:
            aty = getattr(args[0], "ty", "?")
            c3 = [c for c in c2 if last_seg(c.params[0][1].lstrip("&").strip()) == last_seg(aty.lstrip("&").strip())]
            if len(c3) == 1:
                return c3[0]
        if trait_text:
            ga = generic_args(trait_text)
            if ga:
                c3 = [c for c in c2 if c.params and last_seg(c.params[0][1].lstrip("&").strip()) == last_seg(ga[0].lstrip("&").strip())]
                if len(c3) == 1:
                    return c3[0]
        return None


# ----------------------------------------------------------------------------- std models

def _ret(st, v):
    return [(st, Outcome("ret", v))]


def m_try_branch(ex, st, callee, args, dest_ty, frame, depth):
    r = args[0]
    # <Result<T,E> as Try>::branch  /  <Option<T> as Try>::branch
    m = re.match(r"^<(.*) as (?:std::ops::)?Try>::branch", callee)
    rty = m.group(1) if m else r.ty
    out = []
    for s2, vn in ex.case_split(st, r, rty):
        if vn in ("Ok", "Some"):
            val = ex.enum_field(s2, r, vn, 0, (generic_args(rty) or ["?"])[0])
            out.append((s2, Outcome("ret", ex.mk_enum("std::ops::ControlFlow<R, C>", "Continue", [val]))))
        elif vn == "Err":
            ga = generic_args(rty)
            e = ex.enum_field(s2, r, "Err", 0, ga[1] if len(ga) > 1 else "?")
            res = Enum(f"std::result::Result<std::convert::Infallible, {ga[1] if len(ga) > 1 else '?'}>", bv64(1), {"Err": {0: e}})
            out.append((s2, Outcome("ret", ex.mk_enum("std::ops::ControlFlow<R, C>", "Break", [res]))))
        else:  # None
            res = Enum("std::option::Option<std::convert::Infallible>", bv64(0), {})
            out.append((s2, Outcome("ret", ex.mk_enum("std::ops::ControlFlow<R, C>", "Break", [res]))))
    return out


def m_from_residual(ex, st, callee, args, dest_ty, frame, depth):
    # <Result<T, F> as FromResidual<Result<Infallible, E>>>::from_residual
    m = re.match(r"^<(.*) as (?:std::ops::)?FromResidual<(.*)>>::from_residual", callee)
    if not m:
        raise Unencodable(callee)
    target, residual = m.group(1), m.group(2)
    r = args[0]
    if last_seg(target) == "Option":
        return _ret(st, Enum(target, bv64(0), {}))
    e = ex.enum_field(st, r, "Err", 0, (generic_args(residual) or ["?", "?"])[-1])
    f_ty = generic_args(target)[1]
    e_ty = generic_args(residual)[1]
    if last_seg(f_ty) == last_seg(e_ty):
        return _ret(st, ex.mk_enum(target, "Err", [e]))
    outs = ex.call(st, f"<{f_ty} as From<{e_ty}>>::from", [e], f_ty, frame, depth)
    return [(s2, Outcome("ret", ex.mk_enum(target, "Err", [o.value])) if o.kind == "ret" else o) for s2, o in outs]


def _result_ty(callee):
    m = re.match(r"^(?:std::result::)?Result::<(.*?)>::(\w+)", callee)
    return m


def _split_self_generics(callee, head):
    """'std::result::Result::<A, B>::method::<C, D>' -> (['A','B'], method, ['C','D'])"""
    i = callee.find(head + "::<")
    if i < 0:
        return None
    j = i + len(head) + 2
    k = find_matching(callee, j, "<", ">") if True else -1
    # find_matching is not '->'-aware; do it manually
    depth = 0
    k = j
    while k < len(callee):
        c = callee[k]
        if c == "<":
            depth += 1
        elif c == ">" and callee[k - 1] not in "-=":
            depth -= 1
            if depth == 0:
                break
        k += 1
    self_g = split_top(callee[j + 1:k])
    rest = callee[k + 1:]
    m = re.match(r"^::(\w+)(?:::<(.*)>)?$", rest)
    if not m:
        return None
    return self_g, m.group(1), (split_top(m.group(2)) if m.group(2) else [])


def m_result_method(ex, st, callee, args, dest_ty, frame, depth):
    sp = _split_self_generics(callee, "Result")
    if not sp:
        raise Unencodable(callee)
    (tg, method, mg) = sp
    T, E = tg[0], tg[1]
    rty = f"std::result::Result<{T}, {E}>"
    r = args[0]
    byref = False
    if isinstance(r, Ref) or (isinstance(r, Lazy) and is_ref(r.ty)):
        c, p = ex.deref_target(st, r)
        rv = ex.read(st, c, p)
        byref = True
    else:
        rv = r
    out = []
    for s2, vn in ex.case_split(st, rv, rty):
        if vn == "Ok":
            okv = ex.enum_field(s2, rv, "Ok", 0, T)
        else:
            errv = ex.enum_field(s2, rv, "Err", 0, E)
        if method == "or_else":
            if vn == "Ok":
                out.append((s2, Outcome("ret", ex.mk_enum(dest_ty, "Ok", [okv]))))
            else:
                out += ex.call_value(s2, args[1], [errv], dest_ty, frame, depth)
        elif method == "map_err":
            if vn == "Ok":
                out.append((s2, Outcome("ret", ex.mk_enum(dest_ty, "Ok", [okv]))))
            else:
                for s3, o in ex.call_value(s2, args[1], [errv], mg[0] if mg else "?", frame, depth):
                    out.append((s3, Outcome("ret", ex.mk_enum(dest_ty, "Err", [o.value])) if o.kind == "ret" else o))
        elif method == "map":
            if vn == "Err":
                out.append((s2, Outcome("ret", ex.mk_enum(dest_ty, "Err", [errv]))))
            else:
                for s3, o in ex.call_value(s2, args[1], [okv], mg[0] if mg else "?", frame, depth):
                    out.append((s3, Outcome("ret", ex.mk_enum(dest_ty, "Ok", [o.value])) if o.kind == "ret" else o))
        elif method == "and_then":
            if vn == "Err":
                out.append((s2, Outcome("ret", ex.mk_enum(dest_ty, "Err", [errv]))))
            else:
                out += ex.call_value(s2, args[1], [okv], dest_ty, frame, depth)
        elif method == "or":
            # eager: the alternative has already been evaluated by the caller
            out.append((s2, Outcome("ret", ex.mk_enum(dest_ty, "Ok", [okv]) if vn == "Ok" else args[1])))
        elif method == "and":
            out.append((s2, Outcome("ret", args[1] if vn == "Ok" else ex.mk_enum(dest_ty, "Err", [errv]))))
        elif method == "map_or_else":
            if vn == "Err":
                out += ex.call_value(s2, args[1], [errv], dest_ty, frame, depth)
            else:
                out += ex.call_value(s2, args[2], [okv], dest_ty, frame, depth)
        elif method == "map_or":
            if vn == "Err":
                out.append((s2, Outcome("ret", args[1])))
            else:
                out += ex.call_value(s2, args[2], [okv], dest_ty, frame, depth)
        elif method == "ok":
            if vn == "Ok":
                out.append((s2, Outcome("ret", ex.mk_enum(dest_ty, "Some", [okv]))))
            else:
                out.append((s2, Outcome("ret", Enum(dest_ty, bv64(0), {}))))
        elif method == "err":
            if vn == "Err":
                out.append((s2, Outcome("ret", ex.mk_enum(dest_ty, "Some", [errv]))))
            else:
                out.append((s2, Outcome("ret", Enum(dest_ty, bv64(0), {}))))
        elif method in ("is_ok", "is_err"):
            out.append((s2, Outcome("ret", Prim("bool", z3.BoolVal((vn == "Ok") == (method == "is_ok"))))))
        elif method == "is_ok_and":
            if vn == "Err":
                out.append((s2, Outcome("ret", Prim("bool", z3.BoolVal(False)))))
            else:
                out += ex.call_value(s2, args[1], [okv], "bool", frame, depth)
        elif method == "unwrap_or":
            out.append((s2, Outcome("ret", okv if vn == "Ok" else args[1])))
        elif method in ("unwrap", "expect"):
            if vn == "Ok":
                out.append((s2, Outcome("ret", okv)))
            else:
                out.append((s2, Outcome("panic", msg=f"Result::{method} on Err")))
        elif method == "unwrap_or_else":
            if vn == "Ok":
                out.append((s2, Outcome("ret", okv)))
            else:
                out += ex.call_value(s2, args[1], [errv], dest_ty, frame, depth)
        elif method == "as_ref":
            out.append((s2, Outcome("ret", rv)))   # references are transparent for our purposes
        else:
            raise Unencodable(f"Result::{method}")
    return out


def m_option_method(ex, st, callee, args, dest_ty, frame, depth):
    sp = _split_self_generics(callee, "Option")
    if not sp:
        raise Unencodable(callee)
    (tg, method, mg) = sp
    T = tg[0]
    oty = f"std::option::Option<{T}>"
    r = args[0]
    if isinstance(r, Ref) or (isinstance(r, Lazy) and is_ref(r.ty)):
        c, p = ex.deref_target(st, r)
        rv = ex.read(st, c, p)
    else:
        rv = r
    out = []
    for s2, vn in ex.case_split(st, rv, oty):
        some = ex.enum_field(s2, rv, "Some", 0, T) if vn == "Some" else None
        if method == "map":
            if vn == "None":
                out.append((s2, Outcome("ret", Enum(dest_ty, bv64(0), {}))))
            else:
                for s3, o in ex.call_value(s2, args[1], [some], mg[0] if mg else "?", frame, depth):
                    out.append((s3, Outcome("ret", ex.mk_enum(dest_ty, "Some", [o.value])) if o.kind == "ret" else o))
        elif method == "and_then":
            if vn == "None":
                out.append((s2, Outcome("ret", Enum(dest_ty, bv64(0), {}))))
            else:
                out += ex.call_value(s2, args[1], [some], dest_ty, frame, depth)
        elif method == "map_or":
            if vn == "None":
                out.append((s2, Outcome("ret", args[1])))
            else:
                out += ex.call_value(s2, args[2], [some], dest_ty, frame, depth)
        elif method == "map_or_else":
            if vn == "None":
                out += ex.call_value(s2, args[1], [], dest_ty, frame, depth)
            else:
                out += ex.call_value(s2, args[2], [some], dest_ty, frame, depth)
        elif method == "unwrap_or":
            out.append((s2, Outcome("ret", some if vn == "Some" else args[1])))
        elif method == "unwrap_or_else":
            if vn == "Some":
                out.append((s2, Outcome("ret", some)))
            else:
                out += ex.call_value(s2, args[1], [], dest_ty, frame, depth)
        elif method in ("unwrap", "expect"):
            if vn == "Some":
                out.append((s2, Outcome("ret", some)))
            else:
                out.append((s2, Outcome("panic", msg=f"Option::{method} on None")))
        elif method in ("is_some", "is_none"):
            out.append((s2, Outcome("ret", Prim("bool", z3.BoolVal((vn == "Some") == (method == "is_some"))))))
        elif method in ("as_ref", "as_mut", "as_deref", "take_ref"):
            out.append((s2, Outcome("ret", rv)))
        elif method in ("cloned", "copied"):
            if vn == "None":
                out.append((s2, Outcome("ret", Enum(dest_ty, bv64(0), {}))))
            else:
                inner = some
                if isinstance(inner, Ref) or (isinstance(inner, Lazy) and is_ref(inner.ty)):
                    c, p = ex.deref_target(s2, inner)
                    inner = ex.read(s2, c, p)
                out.append((s2, Outcome("ret", ex.mk_enum(dest_ty, "Some", [inner]))))
        elif method == "flatten":
            if vn == "None":
                out.append((s2, Outcome("ret", Enum(dest_ty, bv64(0), {}))))
            else:
                out.append((s2, Outcome("ret", some)))
        elif method == "ok_or":
            if vn == "Some":
                out.append((s2, Outcome("ret", ex.mk_enum(dest_ty, "Ok", [some]))))
            else:
                out.append((s2, Outcome("ret", ex.mk_enum(dest_ty, "Err", [args[1]]))))
        elif method == "or_else":
            if vn == "Some":
                out.append((s2, Outcome("ret", rv)))
            else:
                out += ex.call_value(s2, args[1], [], dest_ty, frame, depth)
        elif method == "or":
            out.append((s2, Outcome("ret", rv if vn == "Some" else args[1])))
        elif method == "and":
            out.append((s2, Outcome("ret", args[1] if vn == "Some" else Enum(dest_ty, bv64(0), {}))))
        elif method == "filter":
            if vn == "None":
                out.append((s2, Outcome("ret", Enum(dest_ty, bv64(0), {}))))
            else:
                cell = f"optf{next(ex.counter)}"
                s2.heap[cell] = some
                for s3, o in ex.call_value(s2, args[1], [Ref("&T", cell, ())], "bool", frame, depth):
                    if o.kind != "ret":
                        out.append((s3, o))
                        continue
                    b = ex.as_prim(o.value).e
                    for cond, val in ((b, rv), (z3.Not(b), Enum(dest_ty, bv64(0), {}))):
                        if ex.feasible(s3, cond):
                            s4 = s3.fork()
                            s4.assume(cond)
                            out.append((s4, Outcome("ret", val)))
        elif method == "ok_or_else":
            if vn == "Some":
                out.append((s2, Outcome("ret", ex.mk_enum(dest_ty, "Ok", [some]))))
            else:
                for s3, o in ex.call_value(s2, args[1], [], "?", frame, depth):
                    out.append((s3, Outcome("ret", ex.mk_enum(dest_ty, "Err", [o.value])) if o.kind == "ret" else o))
        elif method == "transpose":
            # Option<Result<T,E>> -> Result<Option<T>,E>
            if vn == "None":
                none = Enum("std::option::Option<T>", bv64(0), {})
                out.append((s2, Outcome("ret", ex.mk_enum(dest_ty, "Ok", [none]))))
            else:
                for s3, vn2 in ex.case_split(s2, some, T):
                    if vn2 == "Ok":
                        okv = ex.enum_field(s3, some, "Ok", 0, (generic_args(T) or ["?"])[0])
                        sv = ex.mk_enum("std::option::Option<T>", "Some", [okv])
                        out.append((s3, Outcome("ret", ex.mk_enum(dest_ty, "Ok", [sv]))))
                    else:
                        ev = ex.enum_field(s3, some, "Err", 0, (generic_args(T) or ["?", "?"])[1])
                        out.append((s3, Outcome("ret", ex.mk_enum(dest_ty, "Err", [ev]))))
        else:
            raise Unencodable(f"Option::{method}")
    return out


def m_bool_then_some(ex, st, callee, args, dest_ty, frame, depth):
    b = ex.as_prim(args[0]).e
    out = []
    e = st.simp(b)
    opts = []
    if not z3.is_false(e) and ex.feasible(st, b):
        opts.append(True)
    if not z3.is_true(e) and ex.feasible(st, z3.Not(b)):
        opts.append(False)
    for i, o in enumerate(opts):
        s2 = st.fork() if i < len(opts) - 1 else st
        s2.assume(b if o else z3.Not(b))
        if o:
            out.append((s2, Outcome("ret", ex.mk_enum(dest_ty, "Some", [args[1]]))))
        else:
            out.append((s2, Outcome("ret", Enum(dest_ty, bv64(0), {}))))
    return out


def m_bool_then(ex, st, callee, args, dest_ty, frame, depth):
    b = ex.as_prim(args[0]).e
    out = []
    e = st.simp(b)
    opts = []
    if not z3.is_false(e) and ex.feasible(st, b):
        opts.append(True)
    if not z3.is_true(e) and ex.feasible(st, z3.Not(b)):
        opts.append(False)
    for i, o in enumerate(opts):
        s2 = st.fork() if i < len(opts) - 1 else st
        s2.assume(b if o else z3.Not(b))
        if o:
            for s3, oc in ex.call_value(s2, args[1], [], "?", frame, depth):
                out.append((s3, Outcome("ret", ex.mk_enum(dest_ty, "Some", [oc.value])) if oc.kind == "ret" else oc))
        else:
            out.append((s2, Outcome("ret", Enum(dest_ty, bv64(0), {}))))
    return out


def m_clone(ex, st, callee, args, dest_ty, frame, depth):
    r = args[0]
    if isinstance(r, Ref) or (isinstance(r, Lazy) and is_ref(r.ty)):
        c, p = ex.deref_target(st, r)
        return _ret(st, ex.read(st, c, p))
    return _ret(st, r)


def m_identity(ex, st, callee, args, dest_ty, frame, depth):
    return _ret(st, args[0])


def m_into(ex, st, callee, args, dest_ty, frame, depth):
    # <T as Into<U>>::into(x)  ==  <U as From<T>>::from(x)
    m = re.match(r"^<(.*) as (?:std::convert::)?Into<(.*)>>::into$", callee)
    if not m:
        raise Unencodable(callee)
    T, U = m.group(1).strip(), m.group(2).strip()
    if last_seg(T) == last_seg(U) and generic_args(T) == generic_args(U):
        return _ret(st, args[0])
    return ex.call(st, f"<{U} as From<{T}>>::from", args, dest_ty, frame, depth)


def m_from_same(ex, st, callee, args, dest_ty, frame, depth):
    m = re.match(r"^<(.*) as (?:std::convert::)?From<(.*)>>::from$", callee)
    T, U = m.group(1).strip(), m.group(2).strip()
    if last_seg(T) == last_seg(U) and generic_args(T) == generic_args(U):
        return _ret(st, args[0])
    fn = ex.prog.resolve(callee, args, frame.fn)
    if fn is None:
        # impls generated by attribute macros (thiserror's #[from]) sit at the attribute's span, which the source
        # scanner does not index: look the body up by its signature
        cands = [f for f in ex.prog.fns if f.name.endswith(">::from") and len(f.params) == 1
                 and last_seg(f.params[0][1].lstrip("&")) == last_seg(U) and last_seg(f.ret) == last_seg(T) and "<impl at " in f.name]
        if len(cands) == 1:
            fn = cands[0]
    if fn is None:
        raise Unencodable(f"no From impl body for {callee}")
    return ex.exec_fn(st, fn, args, depth + 1)


def m_notnan_new(ex, st, callee, args, dest_ty, frame, depth):
    x = ex.as_prim(args[0]).e
    out = []
    isnan = z3.fpIsNaN(x)
    e = st.simp(isnan)
    can_nan = (not z3.is_false(e)) and ex.feasible(st, isnan)
    can_ok = (not z3.is_true(e)) and ex.feasible(st, z3.Not(isnan))
    if can_nan:
        s2 = st.fork() if can_ok else st
        s2.assume(isnan)
        out.append((s2, Outcome("ret", ex.mk_enum(dest_ty, "Err", [Agg("ordered_float::FloatIsNan", {})]))))
    if can_ok:
        st.assume(z3.Not(isnan))
        nn = Agg("ordered_float::NotNan<f64>", {0: args[0]})
        out.append((st, Outcome("ret", ex.mk_enum(dest_ty, "Ok", [nn]))))
    return out


def m_notnan_into_inner(ex, st, callee, args, dest_ty, frame, depth):
    v = args[0]
    if isinstance(v, Ref) or (isinstance(v, Lazy) and is_ref(v.ty)):
        c, p = ex.deref_target(st, v)
        v = ex.read(st, c, p)
    return _ret(st, ex.agg_field(st, v, 0, "f64"))


def m_f64_total_cmp(ex, st, callee, args, dest_ty, frame, depth):
    """f64::total_cmp: the IEEE totalOrder predicate, as a comparison of the sign-magnitude-adjusted bit patterns"""
    def bits(v):
        if isinstance(v, Ref) or (isinstance(v, Lazy) and is_ref(v.ty)):
            c, p = ex.deref_target(st, v)
            v = ex.read(st, c, p)
        b = z3.fpToIEEEBV(ex.as_prim(v).e)
        # left ^= (((left >> 63) as u64) >> 1) as i64   (std's implementation)
        return b ^ z3.LShR(b >> 63, 1)
    a, b = bits(args[0]), bits(args[1])
    d = z3.If(a < b, z3.BitVecVal(-1, 8), z3.If(a == b, z3.BitVecVal(0, 8), z3.BitVecVal(1, 8)))
    return _ret(st, Prim("i8", d))


def m_ordering_pred(ex, st, callee, args, dest_ty, frame, depth):
    name = callee.split("::")[-1]
    v = args[0]
    if isinstance(v, Prim):
        d = v.e
    elif isinstance(v, Enum):
        d = z3.Extract(7, 0, v.discr)
    else:
        raise Unencodable(f"Ordering::{name} on {v!r}")
    zero = z3.BitVecVal(0, 8)
    e = {"is_gt": d > zero, "is_ge": d >= zero, "is_lt": d < zero, "is_le": d <= zero, "is_eq": d == zero, "is_ne": d != zero}[name]
    return _ret(st, Prim("bool", e))


def m_box_as_ref(ex, st, callee, args, dest_ty, frame, depth):
    """<Box<T> as AsRef<T>>::as_ref / Deref::deref: boxes are transparent"""
    c, p = ex.deref_target(st, args[0])
    v = ex.read(st, c, p)
    if isinstance(v, Ref):
        return _ret(st, Ref(dest_ty, v.cell, v.path))
    return _ret(st, Ref(dest_ty, c, p))


def m_notnan_deref(ex, st, callee, args, dest_ty, frame, depth):
    """<NotNan<f64> as Deref>::deref: a reference to the wrapped float"""
    c, p = ex.deref_target(st, args[0])
    return _ret(st, Ref("&f64", c, tuple(p) + (("f", 0, "f64"),)))


def m_notnan_neg(ex, st, callee, args, dest_ty, frame, depth):
    """<NotNan<f64> as Neg>::neg: the wrapper around the negated float (the negation of a non-NaN is not NaN)"""
    v = args[0]
    if isinstance(v, Ref) or (isinstance(v, Lazy) and is_ref(v.ty)):
        c, p = ex.deref_target(st, v)
        v = ex.read(st, c, p)
    x = ex.agg_field(st, v, 0, "f64")
    return _ret(st, Agg("ordered_float::NotNan<f64>", {0: Prim("f64", z3.fpNeg(x.e))}))


def m_panic(ex, st, callee, args, dest_ty, frame, depth):
    msg = args[0].s if args and isinstance(args[0], StrConst) else callee
    return [(st, Outcome("panic", msg=msg))]


def m_drop(ex, st, callee, args, dest_ty, frame, depth):
    return _ret(st, UNIT)


def m_fp_method(ex, st, callee, args, dest_ty, frame, depth):
    name = callee.split("::")[-1]
    x = ex.as_prim(args[0]).e
    if name == "is_nan":
        return _ret(st, Prim("bool", z3.fpIsNaN(x)))
    if name == "is_normal":
        return _ret(st, Prim("bool", z3.fpIsNormal(x)))
    if name == "is_infinite":
        return _ret(st, Prim("bool", z3.fpIsInf(x)))
    if name == "is_finite":
        return _ret(st, Prim("bool", z3.And(z3.Not(z3.fpIsInf(x)), z3.Not(z3.fpIsNaN(x)))))
    if name == "abs":
        return _ret(st, Prim("f64", z3.fpAbs(x)))
    rounding = {"trunc": z3.RoundTowardZero(), "floor": z3.RoundTowardNegative(), "ceil": z3.RoundTowardPositive(), "round": z3.RoundNearestTiesToAway()}
    if name in rounding:
        return _ret(st, Prim("f64", z3.fpRoundToIntegral(rounding[name], x)))
    if name == "fract":
        return _ret(st, Prim("f64", z3.fpSub(RNE, x, z3.fpRoundToIntegral(z3.RoundTowardZero(), x))))
    raise Unencodable(callee)


def m_int_method(ex, st, callee, args, dest_ty, frame, depth):
    m = re.search(r"<impl (\w+)>::(\w+)$", callee)
    ty, name = m.group(1), m.group(2)
    w, signed = PRIM_INT[ty]
    x = ex.as_prim(args[0]).e
    y = ex.as_prim(args[1]).e if len(args) > 1 else None
    if name == "wrapping_add":
        return _ret(st, Prim(ty, x + y))
    if name == "wrapping_sub":
        return _ret(st, Prim(ty, x - y))
    if name == "wrapping_mul":
        return _ret(st, Prim(ty, x * y))
    if name == "wrapping_neg":
        return _ret(st, Prim(ty, -x))
    if name == "wrapping_abs":
        return _ret(st, Prim(ty, z3.If(x < 0, -x, x)))
    if name == "unsigned_abs":
        uty = "u" + ty[1:]
        return _ret(st, Prim(uty, z3.If(x < 0, -x, x)))
    if name == "wrapping_div":
        out = []
        zero = y == z3.BitVecVal(0, w)
        if ex.feasible(st, zero):
            s2 = st.fork()
            s2.assume(zero)
            out.append((s2, Outcome("panic", msg="wrapping_div by zero")))
        if ex.feasible(st, z3.Not(zero)):
            st.assume(z3.Not(zero))
            out.append((st, Outcome("ret", Prim(ty, (x / y) if signed else z3.UDiv(x, y)))))   # bvsdiv wraps MIN / -1 to MIN
        return out
    if name == "wrapping_rem":
        # panics on zero divisor; MIN % -1 == 0
        out = []
        zero = y == z3.BitVecVal(0, w)
        if ex.feasible(st, zero):
            s2 = st.fork()
            s2.assume(zero)
            out.append((s2, Outcome("panic", msg="wrapping_rem by zero")))
        if ex.feasible(st, z3.Not(zero)):
            st.assume(z3.Not(zero))
            out.append((st, Outcome("ret", Prim(ty, z3.SRem(x, y) if signed else z3.URem(x, y)))))
        return out
    if name in ("saturating_sub", "saturating_add"):
        if signed:
            ext = z3.SignExt(1, x) - z3.SignExt(1, y) if name == "saturating_sub" else z3.SignExt(1, x) + z3.SignExt(1, y)
            lo, hi = z3.BitVecVal(-(1 << (w - 1)), w + 1), z3.BitVecVal((1 << (w - 1)) - 1, w + 1)
            r = z3.If(ext < lo, lo, z3.If(ext > hi, hi, ext))
            return _ret(st, Prim(ty, z3.Extract(w - 1, 0, r)))
        if name == "saturating_sub":
            return _ret(st, Prim(ty, z3.If(z3.ULT(x, y), z3.BitVecVal(0, w), x - y)))
        s_ = x + y
        return _ret(st, Prim(ty, z3.If(z3.ULT(s_, x), z3.BitVecVal((1 << w) - 1, w), s_)))
    if name in ("checked_add", "checked_sub", "checked_neg"):
        if name == "checked_neg":
            ovf = (x == z3.BitVecVal(1 << (w - 1), w)) if signed else (x != 0)
            res = -x
        else:
            ext = z3.SignExt if signed else z3.ZeroExt
            full = ext(1, x) + ext(1, y) if name == "checked_add" else ext(1, x) - ext(1, y)
            res = z3.Extract(w - 1, 0, full)
            ovf = ext(1, res) != full
        out = []
        if ex.feasible(st, ovf):
            s2 = st.fork()
            s2.assume(ovf)
            out.append((s2, Outcome("ret", Enum(dest_ty, bv64(0), {}))))
        if ex.feasible(st, z3.Not(ovf)):
            st.assume(z3.Not(ovf))
            out.append((st, Outcome("ret", ex.mk_enum(dest_ty, "Some", [Prim(ty, res)]))))
        return out
    if name in ("min", "max"):
        lt = (x < y) if signed else z3.ULT(x, y)
        return _ret(st, Prim(ty, z3.If(lt, x, y) if name == "min" else z3.If(lt, y, x)))
    if name == "abs":
        mn = z3.BitVecVal(1 << (w - 1), w)
        out = []
        if ex.feasible(st, x == mn):
            s2 = st.fork()
            s2.assume(x == mn)
            out.append((s2, Outcome("panic", msg=f"{ty}::abs overflow (overflow-checks=on)")))
        if ex.feasible(st, x != mn):
            st.assume(x != mn)
            out.append((st, Outcome("ret", Prim(ty, z3.If(x < 0, -x, x)))))
        return out
    raise Unencodable(callee)


def m_fn_call(ex, st, callee, args, dest_ty, frame, depth):
    """<F as Fn*<Args>>::call*(f, (args,))"""
    tup = args[1] if len(args) > 1 else UNIT
    if isinstance(tup, Agg):
        unpacked = [tup.fields[i] for i in sorted(tup.fields)]
    else:
        raise Unencodable(f"closure call with non-tuple args {tup!r}")
    return ex.call_value(st, args[0], unpacked, dest_ty, frame, depth)


def _deref_val(ex, st, v):
    if isinstance(v, Ref) or (isinstance(v, Lazy) and is_ref(v.ty)):
        c, p = ex.deref_target(st, v)
        return ex.read(st, c, p)
    return v


def m_vec_deref(ex, st, callee, args, dest_ty, frame, depth):
    return _ret(st, args[0])


def m_slice_split_last(ex, st, callee, args, dest_ty, frame, depth):
    s = _deref_val(ex, st, args[0])
    if not isinstance(s, Seq):
        raise Unencodable(f"split_last on non-Seq {s!r} (lemma must supply a bounded list)")
    if not s.items:
        return _ret(st, Enum(dest_ty, bv64(0), {}))
    c = f"seq{next(ex.counter)}"
    st.heap[c] = Seq(s.ty, s.items[:-1], s.kind)
    tup = Agg("(&T, &[T])", {0: Ref("&T", s.items[-1], ()), 1: Ref("&[T]", c, ())})
    return _ret(st, ex.mk_enum(dest_ty, "Some", [tup]))


def m_slice_iter(ex, st, callee, args, dest_ty, frame, depth):
    s = _deref_val(ex, st, args[0])
    if not isinstance(s, Seq):
        raise Unencodable(f"iter on non-Seq {s!r} (lemma must supply a bounded list)")
    return _ret(st, IterVal(dest_ty, s.items, s.kind))


def _iter_item(it, i):
    if it.kind == "map":
        k, v = it.items[i]
        return Agg("(&K, &V)", {0: Ref("&K", k, ()), 1: Ref("&V", v, ())})
    return Ref("&T", it.items[i], ())


def m_iter_try_for_each(ex, st, callee, args, dest_ty, frame, depth):
    it = _deref_val(ex, st, args[0])
    if not isinstance(it, IterVal) or it.f is not None:
        raise Unencodable(f"try_for_each on {it!r}")
    f = args[1]
    if not isinstance(f, Ref):
        c = f"clo{next(ex.counter)}"
        st.heap[c] = f
        f = Ref("&mut F", c, ())
    results = []

    def go(st, i):
        if i == len(it.items):
            results.append((st, Outcome("ret", ex.mk_enum(dest_ty, "Ok", [UNIT]))))
            return
        for s2, o in ex.call_value(st, f, [_iter_item(it, i)], dest_ty, frame, depth):
            if o.kind != "ret":
                results.append((s2, o))
                continue
            for s3, vn in ex.case_split(s2, o.value, dest_ty):
                if vn in ("Ok", "Continue", "Some"):
                    go(s3, i + 1)
                else:
                    results.append((s3, Outcome("ret", o.value)))
    go(st, 0)
    return results


def m_iter_map(ex, st, callee, args, dest_ty, frame, depth):
    it = args[0]
    if not isinstance(it, IterVal) or it.f is not None:
        raise Unencodable(f"Iterator::map on {it!r}")
    return _ret(st, IterVal(dest_ty, it.items, it.kind, f=args[1]))


def m_iter_collect_result(ex, st, callee, args, dest_ty, frame, depth):
    """<Map<I, F> as Iterator>::collect::<Result<C, E>> / Option<C>: stops at the first Err / None"""
    it = args[0]
    if not isinstance(it, IterVal) or it.f is None:
        raise Unencodable(f"collect on {it!r}")
    fc = f"clo{next(ex.counter)}"
    st.heap[fc] = it.f
    f = Ref("&mut F", fc, ())
    is_opt = last_seg(dest_ty) == "Option"
    coll_ty = (generic_args(dest_ty) or ["?"])[0]
    is_map = last_seg(coll_ty) == "BTreeMap"
    results = []

    def go(st, i, acc):
        if i == len(it.items):
            cells = []
            for v in acc:
                if is_map:
                    kc, vc = f"el{next(ex.counter)}", f"el{next(ex.counter)}"
                    st.heap[kc] = ex.agg_field(st, v, 0, "K")
                    st.heap[vc] = ex.agg_field(st, v, 1, "V")
                    cells.append((kc, vc))
                else:
                    c = f"el{next(ex.counter)}"
                    st.heap[c] = v
                    cells.append(c)
            coll = Seq(coll_ty, cells, "map" if is_map else "slice")
            results.append((st, Outcome("ret", ex.mk_enum(dest_ty, "Some" if is_opt else "Ok", [coll]))))
            return
        for s2, o in ex.call_value(st, f, [_iter_item(it, i)], "?", frame, depth):
            if o.kind != "ret":
                results.append((s2, o))
                continue
            item_ty = ("std::option::Option<T>" if is_opt else "std::result::Result<T, E>")
            for s3, vn in ex.case_split(s2, o.value, item_ty if o.value.ty in ("?",) else o.value.ty):
                if vn in ("Ok", "Some"):
                    go(s3, i + 1, acc + [ex.enum_field(s3, o.value, vn, 0, "T")])
                elif vn == "Err":
                    e = ex.enum_field(s3, o.value, "Err", 0, (generic_args(dest_ty) or ["?", "?"])[-1])
                    results.append((s3, Outcome("ret", ex.mk_enum(dest_ty, "Err", [e]))))
                else:
                    results.append((s3, Outcome("ret", Enum(dest_ty, bv64(0), {}))))
    go(st, 0, [])
    return results


def m_vec_with_capacity(ex, st, callee, args, dest_ty, frame, depth):
    return _ret(st, Seq(dest_ty, (), "slice"))


def m_vec_extend_mapped(ex, st, callee, args, dest_ty, frame, depth):
    """<Vec<T> as Extend<T>>::extend(&mut vec, iter.map(f)): f runs for EVERY item, in order; results are appended"""
    c, p = ex.deref_target(st, args[0])
    vec = ex.read(st, c, p)
    it = args[1]
    if not isinstance(vec, Seq) or not isinstance(it, IterVal) or it.f is None:
        raise Unencodable(f"Vec::extend on {vec!r} with {it!r}")
    fc = f"clo{next(ex.counter)}"
    st.heap[fc] = it.f
    f = Ref("&mut F", fc, ())
    results = []

    def go(st, i, cells):
        if i == len(it.items):
            ex.write(st, c, p, Seq(vec.ty, tuple(vec.items) + tuple(cells), vec.kind))
            results.append((st, Outcome("ret", UNIT)))
            return
        for s2, o in ex.call_value(st, f, [_iter_item(it, i)], "?", frame, depth):
            if o.kind != "ret":
                results.append((s2, o))
                continue
            cell = f"el{next(ex.counter)}"
            s2.heap[cell] = o.value
            go(s2, i + 1, cells + [cell])
    go(st, 0, [])
    return results


def m_vec_into_iter_owned(ex, st, callee, args, dest_ty, frame, depth):
    v = args[0]
    if not isinstance(v, Seq):
        raise Unencodable(f"into_iter on {v!r}")
    return _ret(st, IterVal(dest_ty, v.items, "owned"))


def m_collect_results_plain(ex, st, callee, args, dest_ty, frame, depth):
    """<vec::IntoIter<Result<T, E>> as Iterator>::collect::<Result<Vec<T>, E>>: the first Err wins"""
    it = args[0]
    if not isinstance(it, IterVal) or it.f is not None:
        raise Unencodable(f"collect on {it!r}")
    coll_ty = (generic_args(dest_ty) or ["?"])[0]
    results = []

    def go(st, i, acc):
        if i == len(it.items):
            cells = []
            for v in acc:
                cname = f"el{next(ex.counter)}"
                st.heap[cname] = v
                cells.append(cname)
            results.append((st, Outcome("ret", ex.mk_enum(dest_ty, "Ok", [Seq(coll_ty, cells, "slice")]))))
            return
        item = st.heap[it.items[i]]
        for s3, vn in ex.case_split(st, item, getattr(item, "ty", "std::result::Result<T, E>")):
            if vn == "Ok":
                go(s3, i + 1, acc + [ex.enum_field(s3, item, "Ok", 0, "T")])
            else:
                e = ex.enum_field(s3, item, "Err", 0, (generic_args(dest_ty) or ["?", "?"])[-1])
                results.append((s3, Outcome("ret", ex.mk_enum(dest_ty, "Err", [e]))))
    go(st, 0, [])
    return results


def m_prim_eq(ex, st, callee, args, dest_ty, frame, depth):
    """<&int as PartialEq>::eq / <int as PartialEq>::eq (any number of & layers)"""
    def deref(x):
        while isinstance(x, Ref) or (isinstance(x, Lazy) and is_ref(x.ty)):
            c, p = ex.deref_target(st, x)
            x = ex.read(st, c, p)
        return x
    a, b = ex.as_prim(deref(args[0])), ex.as_prim(deref(args[1]))
    return _ret(st, Prim("bool", a.e == b.e))


def m_partialeq_ne(ex, st, callee, args, dest_ty, frame, depth):
    """default `PartialEq::ne`: !eq"""
    outs = ex.call(st, callee[:-4] + "::eq", args, "bool", frame, depth)
    res = []
    for s2, o in outs:
        if o.kind == "ret":
            res.append((s2, Outcome("ret", Prim("bool", z3.Not(ex.as_prim(o.value).e)))))
        else:
            res.append((s2, o))
    return res


def _rx(p):
    return re.compile(p)


DEFAULT_MODELS = [
    (_rx(r"^<&*(i8|i16|i32|i64|isize|u8|u16|u32|u64|usize|bool|char) as (std::cmp::)?PartialEq(<.*>)?>::eq$"), m_prim_eq),
    (_rx(r" as (std::cmp::)?PartialEq(<.*>)?>::ne$"), m_partialeq_ne),
    (_rx(r"^(std::hint::|core::hint::)?must_use::<"), m_identity),
    (_rx(r"^<Vec<.*> as (std::ops::)?Deref(Mut)?>::deref(_mut)?$|^Vec::<.*>::as_slice$"), m_vec_deref),
    (_rx(r"^core::slice::<impl \[.*\]>::split_last$"), m_slice_split_last),
    (_rx(r"^core::slice::<impl \[.*\]>::iter$|^BTreeMap::<.*>::iter$"), m_slice_iter),
    (_rx(r"Iter<.*> as Iterator>::try_for_each::<"), m_iter_try_for_each),
    (_rx(r"Iter<.*> as Iterator>::map::<"), m_iter_map),
    (_rx(r"^<std::iter::Map<.*> as Iterator>::collect::<std::(result::Result|option::Option)<"), m_iter_collect_result),
    (_rx(r"^<std::vec::IntoIter<std::result::Result<.*>> as Iterator>::collect::<std::result::Result<"), m_collect_results_plain),
    (_rx(r"^<Vec<.*> as Extend<.*>>::extend::<std::iter::Map<"), m_vec_extend_mapped),
    (_rx(r"^Vec::<.*>::with_capacity$"), m_vec_with_capacity),
    (_rx(r"^<Vec<std::result::Result<.*>> as IntoIterator>::into_iter$"), m_vec_into_iter_owned),
    (_rx(r" as (std::ops::)?Fn(Mut|Once)?<.*>>::call(_mut|_once)?$"), m_fn_call),
    (_rx(r" as (std::ops::)?Try>::branch$"), m_try_branch),
    (_rx(r" as (std::ops::)?FromResidual<.*>>::from_residual$"), m_from_residual),
    (_rx(r"^(std::result::)?Result::<.*>::\w+(::<.*>)?$"), m_result_method),
    (_rx(r"^(std::option::)?Option::<.*>::\w+(::<.*>)?$"), m_option_method),
    (_rx(r"bool>::then_some::<|<impl bool>::then_some::<"), m_bool_then_some),
    (_rx(r"<impl bool>::then::<"), m_bool_then),
    (_rx(r" as (std::clone::)?Clone>::clone$"), m_clone),
    (_rx(r" as (std::convert::)?Into<.*>>::into$"), m_into),
    (_rx(r" as (std::convert::)?From<.*>>::from$"), m_from_same),
    (_rx(r"^NotNan::<f64>::new$"), m_notnan_new),
    (_rx(r"^NotNan::<f64>::into_inner$"), m_notnan_into_inner),
    (_rx(r"^<&?NotNan<f64> as Neg>::neg$"), m_notnan_neg),
    (_rx(r"^<NotNan<f64> as Deref>::deref$"), m_notnan_deref),
    (_rx(r"^<Box<.*> as AsRef<.*>>::as_ref$"), m_box_as_ref),
    (_rx(r"<impl f64>::total_cmp$"), m_f64_total_cmp),
    (_rx(r"^(std::cmp::)?Ordering::(is_gt|is_ge|is_lt|is_le|is_eq|is_ne)$"), m_ordering_pred),
    (_rx(r"^(std::rt::|core::panicking::)?(panic|panic_fmt|begin_panic|panic_display|panic_explicit)\b|::expect_failed$|::unwrap_failed$|^(core::)?panicking::panic"), m_panic),
    (_rx(r"^(std::mem::|core::mem::)?drop::<| as (std::ops::)?Drop>::drop$"), m_drop),
    (_rx(r"<impl f64>::(is_nan|is_normal|is_infinite|is_finite|abs|fract|trunc|floor|ceil|round)$"), m_fp_method),
    (_rx(r"<impl (i64|i32|isize|u64|usize|u32|u8)>::(wrapping_add|wrapping_sub|wrapping_mul|wrapping_rem|wrapping_div|wrapping_neg|wrapping_abs|unsigned_abs|abs|saturating_sub|saturating_add|checked_add|checked_sub|checked_neg|min|max)$"), m_int_method),
]
