"""Engine R, program side: build /verif/replay against /repo's working tree and run specs natively."""
import json, os, tempfile
from common import *

REPLAY_DIR = os.path.join(VERIF, "replay")
TARGET = os.path.join(SCRATCH, "replay2-target")
_bin = {}


def build(profile="dev"):
    if profile in _bin:
        return _bin[profile]
    lock = os.path.join(REPLAY_DIR, "Cargo.lock")
    if not os.path.exists(lock):
        import shutil
        shutil.copy(os.path.join(REPO, "Cargo.lock"), lock)
    cmd = ["cargo", "build", "--offline", "--target-dir", TARGET]
    if profile == "release":
        cmd.append("--release")
    rc, out, err, secs, to = run(cmd, timeout=3600, cwd=REPLAY_DIR)
    if rc != 0:
        # the kernel (`fn`) mode calls arithmetic traits directly; a change of their signatures must not take the
        # program (`run`) mode down with it
        log("replay build failed, retrying without the `kernels` feature:\n" + err[-1500:])
        rc, out, err, secs, to = run(cmd + ["--no-default-features"], timeout=3600, cwd=REPLAY_DIR)
    if rc != 0:
        log("replay build failed:\n" + err[-3000:])
        _bin[profile] = None
        return None
    _bin[profile] = os.path.join(TARGET, "debug" if profile == "dev" else "release", "vrl-replay")
    return _bin[profile]


def call(mode, specs, profile="dev"):
    """mode: 'run' | 'fn'; specs: list of dict; returns list of observations (or None on failure)"""
    b = build(profile)
    if not b:
        return None
    with tempfile.NamedTemporaryFile("w", suffix=".json", dir=SCRATCH, delete=False) as f:
        json.dump(specs, f)
        p = f.name
    try:
        rc, out, err, secs, to = run([b, mode, p], timeout=300)
    finally:
        os.unlink(p)
    if rc != 0:
        log(f"replay {mode} failed rc={rc}: {err[-500:]}")
        return None
    try:
        return json.loads(out.strip().splitlines()[-1])
    except Exception as e:  # noqa
        log(f"replay output unparsable: {out[-300:]}")
        return None


def tables(name):
    b = build("dev")
    if not b:
        return None
    rc, out, err, secs, to = run([b, name], timeout=1200)
    if rc != 0:
        log(f"table {name} failed: {err[-500:]}")
        return None
    return json.loads(out)


def replay_file(path):
    d = json.load(open(path))
    import sys
    sys.path.insert(0, os.path.join(VERIF, "lib", "mirse"))
    import witness
    ok = False
    for prof in ("dev", "release"):
        obs = call(d.get("mode", "run"), [d["spec"]], prof)
        if obs is None:
            print(f"replay[{prof}]: could not run")
            continue
        if d.get("mode", "run") == "run":
            mm = witness.mismatch(obs[0], d["expect"])
        else:
            mm = fn_mismatch(obs[0], d["expect"])
        if mm:
            print(f"replay[{prof}] REPRODUCED: " + "; ".join(mm))
            ok = True
        else:
            print(f"replay[{prof}] NOT-REPRODUCED: observation matches the expectation: {json.dumps(obs[0])[:300]}")
    return ok


def fn_mismatch(obs, exp):
    out = []
    for k, v in exp.items():
        if k == "not_panic":
            if "panic" in obs:
                out.append(f"panicked: {obs['panic']}")
        elif k == "ok":
            got = obs.get("ok")
            if isinstance(got, dict):
                got = {a: b for a, b in got.items() if a != "approx"}
            if got != v:
                out.append(f"result {obs!r}, expected ok {v!r}")
        elif k == "err":
            if obs.get("err") != v and not (v is True and "err" in obs):
                out.append(f"result {obs!r}, expected err {v!r}")
    return out
