#!/usr/bin/env python3
"""./check <Cxx> [--tier quick|thorough] [--replay path]"""
import sys, os, argparse, importlib
sys.path.insert(0, os.path.dirname(os.path.abspath(__file__)))
from common import *


def main():
    ap = argparse.ArgumentParser()
    ap.add_argument("prop")
    ap.add_argument("--tier", default=None)
    ap.add_argument("--replay", default=None)
    a = ap.parse_args()
    if a.tier:
        os.environ["VERIF_TIER"] = a.tier
    prop = a.prop.upper()
    if a.replay:
        import replay
        sys.exit(0 if replay.replay(a.replay) else 3)
    try:
        mod = importlib.import_module("props." + prop.lower())
    except ModuleNotFoundError as e:
        print(f"no check for {prop}: {e}")
        sys.exit(EXIT_INCONCLUSIVE)
    try:
        ev, viol, inconc, known_lines = mod.run()
    except Exception as e:  # noqa -- a crash of the machinery is never a verdict: exit 2, and never a VIOLATION line
        import traceback
        traceback.print_exc()
        print(f"INCONCLUSIVE property={prop} the check crashed: {type(e).__name__}: {str(e)[:300]}")
        print(f"SUMMARY property={prop} tier={tier()} obligations=0 discharged=0 violations=0 inconclusive=1 known=0 wall_s=0")
        sys.exit(EXIT_INCONCLUSIVE)
    ev.violations = len(viol)
    ev.cov["inconclusive_reasons"] = inconc
    ev.write()
    for l in known_lines:
        print(l)
    for role, path in viol:
        print(f"VIOLATION property={prop} replay={path}   role={role}")
    for i in inconc:
        print(f"INCONCLUSIVE property={prop} {i}")
    print(f"SUMMARY property={prop} tier={tier()} obligations={ev.cov['obligations']} discharged={ev.cov['discharged']} "
          f"violations={len(viol)} inconclusive={len(inconc)} known={len(known_lines)} wall_s={ev.cov.get('wall',0) or round(__import__('time').time()-ev.t0,1)}")
    if viol:
        sys.exit(EXIT_VIOLATION)
    if inconc:
        sys.exit(EXIT_INCONCLUSIVE)
    sys.exit(EXIT_OK)


if __name__ == "__main__":
    main()
