import json
from common import *


def replay(path):
    d = json.load(open(path))
    if d.get("engine") == "kani":
        import kani_engine
        return kani_engine.replay_file(path)
    if d.get("engine") == "mirse":
        import vrl_replay
        return vrl_replay.replay_file(path)
    print("unknown replay engine", d.get("engine"))
    return False
