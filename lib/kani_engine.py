"""Engine K: run Kani harnesses from /verif/kani against /repo's working tree, parse verdicts,
extract counterexamples (concrete playback) and replay them natively (engine R)."""
import json, os, re, shutil, hashlib
from common import *

KANI_DIR = os.path.join(VERIF, "kani")
KANI_TARGET = os.path.join(SCRATCH, "kani-target")
REPLAY_TARGET = os.path.join(SCRATCH, "replay-target")

STUBS_NOTE = []


def _sync_lock():
    """The harness crate must resolve dependencies exactly as /repo does (offline)."""
    src = os.path.join(REPO, "Cargo.lock")
    dst = os.path.join(KANI_DIR, "Cargo.lock")
    # keep our own lock (it adds the harness package) unless it is missing
    if not os.path.exists(dst):
        shutil.copy(src, dst)


class HarnessResult:
    def __init__(self, name):
        self.name = name
        self.status = "missing"       # success | failure | timeout | error | missing
        self.failed = []              # [(description, location)]
        self.covers = []              # [(description, status)]
        self.n_checks = 0
        self.n_unreachable = 0
        self.n_undetermined = 0
        self.duration = 0.0
        self.solver_s = 0.0
        self.symex_s = 0.0
        self.unwind_fail = False

    def short(self):
        return self.name.split("::")[-1]


def run_kani(filters, timeout_s=120, jobs=8, extra=None, features=None):
    """Returns (dict short_name -> HarnessResult, raw_log, wall_seconds). One cargo-kani invocation."""
    _sync_lock()
    os.makedirs(KANI_TARGET, exist_ok=True)
    js = os.path.join(SCRATCH, "kani-%d.json" % os.getpid())
    if os.path.exists(js):
        os.remove(js)
    cmd = ["cargo", "kani", "--lib", "--target-dir", KANI_TARGET, "-j", str(jobs), "--output-format", "terse",
           "-Z", "unstable-options", "-Z", "stubbing", "--harness-timeout", f"{int(timeout_s)}s", "--export-json", js]
    if features:
        cmd += ["--features", features]
    for f in filters:
        cmd += ["--harness", f]
    if extra:
        cmd += extra
    overall = timeout_s * max(1, (len(filters) + jobs - 1)) + 900
    rc, out, err, secs, to = run(cmd, timeout=overall, cwd=KANI_DIR, env={"VRL_REPO": REPO})
    raw = out + "\n" + err
    res = {}
    # harness list from the log (so that a harness that timed out is still known)
    for m in re.finditer(r"Checking harness ([\w:]+)\.\.\.", raw):
        n = m.group(1)
        res.setdefault(n.split("::")[-1], HarnessResult(n))
    if os.path.exists(js):
        try:
            d = json.load(open(js))
        except Exception as e:  # noqa
            d = None
        if d:
            stats = {c["harness_id"]: (c.get("cbmc_stats") or {}) for c in d.get("cbmc", [])}
            for r in d.get("verification_results", {}).get("results", []):
                n = r["harness_id"]
                h = res.setdefault(n.split("::")[-1], HarnessResult(n))
                st = r.get("status", "")
                h.status = {"Success": "success", "Failure": "failure"}.get(st, st.lower() or "error")
                h.duration = r.get("duration_ms", 0) / 1000.0
                s = stats.get(n) or {}
                h.solver_s = float(s.get("runtime_solver_s", 0) or 0)
                h.symex_s = float(s.get("runtime_symex_s", 0) or 0)
                for c in r.get("checks", []):
                    cat = c.get("category", "")
                    cs = c.get("status", "")
                    desc = c.get("description", "")
                    if cat == "cover" or cs in ("Satisfied", "Unsatisfiable", "Uncovered", "Covered"):
                        h.covers.append((desc, cs))
                        continue
                    h.n_checks += 1
                    if cs == "Unreachable":
                        h.n_unreachable += 1
                    elif cs == "Undetermined":
                        h.n_undetermined += 1
                    elif cs == "Failure":
                        loc = c.get("location", {})
                        h.failed.append((desc.strip('"'), f'{loc.get("file","?")}:{loc.get("line","?")} in {c.get("function","?")}'))
                        if "unwinding assertion" in desc or cat == "unwind":
                            h.unwind_fail = True
            os.remove(js)
    # time-outs: harnesses announced but without a result
    for h in res.values():
        if h.status == "missing":
            if re.search(r"timed out|Timeout|TIMEOUT", raw):
                h.status = "timeout"
            else:
                h.status = "error"
    if to:
        for h in res.values():
            if h.status in ("missing", "error"):
                h.status = "timeout"
    return res, raw, secs


def counterexample(harness_short, timeout_s=600):
    """Re-run one failing harness with concrete playback; returns list of lists of hex strings
    (one list per generated playback test)."""
    cmd = ["cargo", "kani", "--lib", "--target-dir", KANI_TARGET, "-Z", "concrete-playback", "--concrete-playback=print",
           "-Z", "stubbing", "--harness", harness_short, "--output-format", "terse"]
    rc, out, err, secs, to = run(cmd, timeout=timeout_s, cwd=KANI_DIR, env={"VRL_REPO": REPO})
    raw = out + "\n" + err
    tests = []
    for blk in re.finditer(r"let concrete_vals: Vec<Vec<u8>> = vec!\[(.*?)\];\s*kani::concrete_playback_run", raw, re.S):
        vals = []
        for m in re.finditer(r"vec!\[([0-9,\s]*)\]", blk.group(1)):
            nums = [int(x) for x in m.group(1).replace(" ", "").split(",") if x]
            vals.append("".join("%02x" % n for n in nums) or "-")
        tests.append(vals)
    return tests, raw


_built = {}


def build_replayer(profile="dev"):
    if profile in _built:
        return _built[profile]
    cmd = ["cargo", "build", "--offline", "--bin", "replay", "--target-dir", REPLAY_TARGET]
    if profile == "release":
        cmd.append("--release")
    rc, out, err, secs, to = run(cmd, timeout=1800, cwd=KANI_DIR, env={"VRL_REPO": REPO})
    if rc != 0:
        log(err[-3000:])
        _built[profile] = None
        return None
    p = os.path.join(REPLAY_TARGET, "debug" if profile == "dev" else "release", "replay")
    _built[profile] = p
    return p


def native_replay(harness_short, hexvals, profile="dev"):
    """Returns (reproduced: bool|None, message)."""
    b = build_replayer(profile)
    if not b:
        return None, "replayer build failed"
    rc, out, err, secs, to = run([b, harness_short] + hexvals, timeout=60)
    line = (out.strip().splitlines() or ["<no output> " + err[-300:]])[-1]
    if rc == 0 and line.startswith("REPRODUCED"):
        return True, line
    if rc == 3:
        return False, line
    # a native crash (abort, stack overflow) also counts as reproduced misbehaviour
    if rc < 0 or rc >= 128 or rc == 101:
        return True, f"native crash rc={rc} {err[-300:]}"
    return None, f"rc={rc} {line}"


def write_replay(prop, harness, role, hexvals, native):
    os.makedirs(os.path.join(VERIF, "replays"), exist_ok=True)
    h = hashlib.sha1((harness + role + "".join(hexvals)).encode()).hexdigest()[:10]
    p = os.path.join(VERIF, "replays", f"{prop}-{harness}-{h}.json")
    with open(p, "w") as f:
        json.dump({"engine": "kani", "property": prop, "harness": harness, "role": role,
                   "values_hex_le": hexvals, "native": native,
                   "how": f"./check {prop} --replay {p}"}, f, indent=1)
    return p


def replay_file(path):
    d = json.load(open(path))
    ok_any = False
    for prof in ("dev", "release"):
        r, msg = native_replay(d["harness"], d["values_hex_le"], prof)
        print(f"replay[{prof}] {d['harness']}: {msg}")
        ok_any = ok_any or bool(r)
    return ok_any


def check_property(prop, ev, filters, timeout_s, jobs=8, role_prefix=None, features=None):
    """Generic K check: all harnesses matching filters. Returns (violations, inconclusive, known_lines)."""
    known = known_for(prop)
    res, raw, secs = run_kani(filters, timeout_s=timeout_s, jobs=jobs, features=features)
    viol, inconc, known_lines = [], [], []
    if not res:
        inconc.append("kani produced no harness results (build failure?): " + raw[-1500:])
        return viol, inconc, known_lines
    ev.cov["checker_cmd"] = "cargo kani (0.68.0, CBMC 6.11.0, cadical) --harness " + " ".join(filters) + " in /verif/kani (path dep on /repo)"
    for short, h in sorted(res.items()):
        is_witness = "vacuity_witness" in short
        if is_witness:
            ok = h.status == "failure" and any(d == "VACUITY" for d, _ in h.failed)
            ev.cov["vacuity_witnesses"].append({"harness": short, "must_fail": True, "failed_as_expected": ok})
            if not ok:
                inconc.append(f"vacuity witness {short} did not fail (status {h.status})")
            continue
        uncovered = [d for d, s in h.covers if s not in ("Satisfied", "Covered")]
        ev.cov["vacuity_witnesses"].append({"harness": short, "covers": len(h.covers), "unsatisfied": uncovered})
        if uncovered:
            inconc.append(f"{short}: cover properties not satisfied: {uncovered}")
        reach = h.n_checks - h.n_unreachable
        if h.status == "success" and not h.failed and h.n_undetermined == 0:
            ev.obligation(short, True, h.solver_s, detail={"cbmc_checks": h.n_checks, "reachable": reach,
                          "symex_s": h.symex_s, "verification_s": h.duration}, sample=True)
            ev.cov["obligations"] += max(0, reach - 1)
            ev.cov["discharged"] += max(0, reach - 1)
            continue
        if h.status in ("timeout", "error", "missing") or (not h.failed):
            ev.obligation(short, False, h.solver_s, detail={"status": h.status})
            inconc.append(f"{short}: {h.status} (undetermined={h.n_undetermined})")
            ev.cov["inconclusive"].append(short)
            continue
        # failure with failed checks
        if h.unwind_fail:
            inconc.append(f"{short}: unwinding assertion failed (bound too small)")
            ev.cov["inconclusive"].append(short)
        roles = []
        for d, loc in h.failed:
            if "unwinding assertion" in d:
                continue
            roles.append((d, loc))
        unknown_roles = [(d, l) for d, l in roles if d not in known]
        for d, l in roles:
            if d in known:
                line = f"KNOWN-FINDING: property={prop} {known[d]['what']}"
                if line not in known_lines:
                    known_lines.append(line)
                ev.cov["known_findings"].append({"role": d, "harness": short})
        n_fail = len({d for d, _ in roles})
        ev.cov["obligations"] += max(0, reach - n_fail)
        ev.cov["discharged"] += max(0, reach - n_fail)
        if unknown_roles:
            tests, craw = counterexample(short)
            reproduced = None
            for vals in tests or [[]]:
                nat = {}
                for prof in ("dev", "release"):
                    r, msg = native_replay(short, vals, prof)
                    nat[prof] = msg
                    if r:
                        # attribute to the role that the native run reports, if it is one of ours
                        reproduced = (vals, nat, msg)
                if reproduced:
                    # fill both profiles
                    break
            if reproduced:
                vals, nat, msg = reproduced
                m = re.search(r"REPRODUCED (.*)", msg)
                role = (m.group(1).strip() if m else unknown_roles[0][0])
                if role in known:
                    # the counterexample CBMC picked hits the known role; the other failing role(s) still need a verdict
                    inconc.append(f"{short}: unlisted failing checks {sorted({d for d,_ in unknown_roles})} but playback reproduced only the known role {role}")
                else:
                    path = write_replay(prop, short, role, vals, nat)
                    viol.append((role, path))
                    ev.cov["refuted"].append({"harness": short, "role": role, "replay": path, "native": nat})
            else:
                inconc.append(f"{short}: failing checks {sorted({d for d,_ in unknown_roles})} did not reproduce natively (encoding/stub problem?)")
                ev.cov["inconclusive"].append(short)
            for d, _ in unknown_roles:
                ev.obligation(f"{short}:{d}", False, 0.0, detail={"failed_check": d})
    return viol, inconc, known_lines
