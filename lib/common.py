"""Shared plumbing: scratch dirs, capped subprocesses, evidence files, known findings."""
import json, os, subprocess, sys, time, hashlib, resource, signal

VERIF = os.path.dirname(os.path.dirname(os.path.abspath(__file__)))
REPO = os.environ.get("VRL_REPO", "/repo")
SCRATCH = os.environ.get("VERIF_SCRATCH", "/var/tmp/vrl-verif")
os.makedirs(SCRATCH, exist_ok=True)

EXIT_OK, EXIT_VIOLATION, EXIT_INCONCLUSIVE = 0, 1, 2


def tier():
    return os.environ.get("VERIF_TIER", "quick")


def seed():
    try:
        return int(os.environ.get("VERIF_SEED", "0"))
    except ValueError:
        return 0


def log(*a):
    print(*a, file=sys.stderr, flush=True)


def run(cmd, timeout=None, mem_gb=None, cwd=None, env=None, stdin=None):
    """Run cmd (list) under a wall-clock cap and an address-space cap. Returns (rc, out, err, secs, timed_out)."""
    e = dict(os.environ)
    e["CARGO_NET_OFFLINE"] = "true"
    if env:
        e.update(env)

    def pre():
        os.setsid()
        if mem_gb:
            b = int(mem_gb * (1 << 30))
            resource.setrlimit(resource.RLIMIT_AS, (b, b))

    t0 = time.time()
    p = subprocess.Popen(cmd, cwd=cwd, env=e, stdout=subprocess.PIPE, stderr=subprocess.PIPE,
                         stdin=subprocess.PIPE if stdin is not None else subprocess.DEVNULL,
                         text=True, preexec_fn=pre)
    try:
        out, err = p.communicate(stdin, timeout=timeout)
        to = False
    except subprocess.TimeoutExpired:
        try:
            os.killpg(p.pid, signal.SIGKILL)
        except ProcessLookupError:
            pass
        out, err = p.communicate()
        to = True
    return p.returncode, out, err, time.time() - t0, to


def file_hash(path):
    h = hashlib.sha256()
    with open(path, "rb") as f:
        h.update(f.read())
    return h.hexdigest()[:16]


def repo_head():
    rc, out, _, _, _ = run(["git", "-C", REPO, "rev-parse", "--short", "HEAD"])
    rc2, out2, _, _, _ = run(["git", "-C", REPO, "status", "--porcelain", "--untracked-files=no"])
    return out.strip() + ("+dirty" if out2.strip() else "")


# ---------------------------------------------------------------- known findings

def load_known():
    p = os.path.join(VERIF, "known_findings.json")
    if not os.path.exists(p):
        return []
    with open(p) as f:
        return json.load(f)["findings"]


def known_for(prop):
    """role -> entry, only entries with status 'known' suppress anything."""
    return {e["role"]: e for e in load_known() if e["property"] == prop and e["status"] == "known"}


# ---------------------------------------------------------------- evidence

class Evidence:
    def __init__(self, prop, level):
        self.prop = prop
        self.level = level
        self.t0 = time.time()
        self.cov = {"obligations": 0, "discharged": 0, "samples": [], "trusted_base": [],
                    "checker_cmd": "", "functions_encoded": [], "bounds": [], "queries": [],
                    "solver_time_s": 0.0, "vacuity_witnesses": [], "known_findings": [],
                    "inconclusive": [], "refuted": []}
        self.assumptions = []
        self.violations = 0

    def obligation(self, name, ok, secs=0.0, detail=None, sample=False):
        self.cov["obligations"] += 1
        if ok:
            self.cov["discharged"] += 1
        self.cov["solver_time_s"] = round(self.cov["solver_time_s"] + secs, 3)
        q = {"name": name, "result": "discharged" if ok else "open", "solver_s": round(secs, 3)}
        if detail:
            q["detail"] = detail
        self.cov["queries"].append(q)
        if sample or len(self.cov["samples"]) < 6:
            self.cov["samples"].append(q)

    def write(self):
        os.makedirs(os.path.join(VERIF, "evidence"), exist_ok=True)
        cov = dict(self.cov)
        if len(cov["queries"]) > 400:
            cov["queries_truncated"] = len(cov["queries"])
            cov["queries"] = cov["queries"][:400]
        if not cov["samples"]:
            cov["samples"] = [{"note": "no obligation was generated (infrastructure failure)"}]
        # generic keys as well, measured: every obligation is one evaluated query; distinct = distinct names
        cov["evaluations"] = max(1, cov["obligations"])
        cov["distinct_nontrivial"] = len({q["name"] for q in self.cov["queries"]})
        cov["rule"] = ("one evaluation = one solver query (CBMC property or SMT lemma); distinct = distinct "
                       "obligation names; trivially-unreachable CBMC properties are not counted as obligations")
        d = {"property_id": self.prop, "tier": tier(), "seed": seed(), "level": self.level,
             "coverage": cov, "assumptions": self.assumptions, "wall_s": round(time.time() - self.t0, 2),
             "violations": self.violations, "repo_head": repo_head()}
        with open(os.path.join(VERIF, "evidence", f"{self.prop}.json"), "w") as f:
            json.dump(d, f, indent=1, default=str)
