//! Engine R (program side) and engine T (tables).  Natively executes the real vrl library.
//!
//!   vrl-replay run <file.json>     compile + run a VRL program on an event, print a JSON observation
//!   vrl-replay fn  <file.json>     call a value-level kernel on concrete arguments, print JSON
//!   vrl-replay optable             dump the compiler's typing table for binary operators (engine T)
use std::collections::BTreeMap;
use std::panic;

use serde_json::{Value as J, json};
use vrl::compiler::state::ExternalEnv;
use vrl::compiler::{CompileConfig, TargetValue, TimeZone, runtime::Runtime, runtime::Terminate};
use vrl::prelude::*;
use vrl::value::Secrets;

mod tables;

thread_local! { static LAST_PANIC_LOC: std::cell::RefCell<String> = std::cell::RefCell::new(String::new()); }

/// A target that rejects chosen operations (by per-kind ordinal) without touching the wrapped event.
#[derive(Debug)]
struct FaultyTarget {
    inner: TargetValue,
    gets: std::cell::Cell<usize>,
    inserts: usize,
    removes: usize,
    fail_gets: Vec<usize>,
    fail_inserts: Vec<usize>,
    fail_removes: Vec<usize>,
    log: std::cell::RefCell<Vec<String>>,
}

impl vrl::compiler::SecretTarget for FaultyTarget {
    fn get_secret(&self, key: &str) -> Option<&str> {
        self.inner.get_secret(key)
    }
    fn insert_secret(&mut self, key: &str, value: &str) {
        self.inner.insert_secret(key, value);
    }
    fn remove_secret(&mut self, key: &str) {
        self.inner.remove_secret(key);
    }
}

impl vrl::compiler::Target for FaultyTarget {
    fn target_insert(&mut self, path: &vrl::path::OwnedTargetPath, value: Value) -> Result<(), String> {
        let n = self.inserts;
        self.inserts += 1;
        if self.fail_inserts.contains(&n) {
            self.log.borrow_mut().push(format!("insert#{n} {path} REJECTED"));
            return Err("injected fault".into());
        }
        self.log.borrow_mut().push(format!("insert#{n} {path}"));
        self.inner.target_insert(path, value)
    }
    fn target_get(&self, path: &vrl::path::OwnedTargetPath) -> Result<Option<&Value>, String> {
        let n = self.gets.get();
        self.gets.set(n + 1);
        if self.fail_gets.contains(&n) {
            self.log.borrow_mut().push(format!("get#{n} {path} REJECTED"));
            return Err("injected fault".into());
        }
        self.log.borrow_mut().push(format!("get#{n} {path}"));
        self.inner.target_get(path)
    }
    fn target_get_mut(&mut self, path: &vrl::path::OwnedTargetPath) -> Result<Option<&mut Value>, String> {
        self.inner.target_get_mut(path)
    }
    fn target_remove(&mut self, path: &vrl::path::OwnedTargetPath, compact: bool) -> Result<Option<Value>, String> {
        let n = self.removes;
        self.removes += 1;
        if self.fail_removes.contains(&n) {
            self.log.borrow_mut().push(format!("remove#{n} {path} REJECTED"));
            return Err("injected fault".into());
        }
        self.log.borrow_mut().push(format!("remove#{n} {path}"));
        self.inner.target_remove(path, compact)
    }
}

fn idx_list(spec: &J, key: &str) -> Vec<usize> {
    spec.get("faults").and_then(|f| f.get(key)).and_then(|x| x.as_array()).map(|a| a.iter().map(|v| v.as_u64().unwrap() as usize).collect()).unwrap_or_default()
}

/// tagged JSON <-> Value (exact: integers as decimal strings, floats as bit patterns)
pub fn from_tagged(j: &J) -> Value {
    match j {
        J::Null => Value::Null,
        J::String(s) if s == "Null" => Value::Null,
        J::Object(m) if m.len() == 1 => {
            let (k, v) = m.iter().next().unwrap();
            match k.as_str() {
                "Integer" => Value::Integer(v.as_str().map(|s| s.parse().unwrap()).unwrap_or_else(|| v.as_i64().unwrap())),
                "Float" => {
                    let bits = u64::from_str_radix(v.as_str().unwrap().trim_start_matches("0x"), 16).unwrap();
                    Value::Float(NotNan::new(f64::from_bits(bits)).expect("NaN in replay value"))
                }
                "Boolean" => Value::Boolean(v.as_bool().unwrap()),
                "Bytes" => Value::Bytes(Bytes::from(v.as_str().unwrap().to_owned())),
                "BytesHex" => {
                    let s = v.as_str().unwrap();
                    let b: Vec<u8> = (0..s.len() / 2).map(|i| u8::from_str_radix(&s[2 * i..2 * i + 2], 16).unwrap()).collect();
                    Value::Bytes(Bytes::from(b))
                }
                "Array" => Value::Array(v.as_array().unwrap().iter().map(from_tagged).collect()),
                "Object" => Value::Object(v.as_object().unwrap().iter().map(|(k, v)| (k.as_str().into(), from_tagged(v))).collect()),
                "Null" => Value::Null,
                _ => panic!("bad tagged value {j}"),
            }
        }
        _ => panic!("bad tagged value {j}"),
    }
}

pub fn to_tagged(v: &Value) -> J {
    match v {
        Value::Null => json!("Null"),
        Value::Integer(i) => json!({"Integer": i.to_string()}),
        Value::Float(f) => json!({"Float": format!("0x{:016x}", f.into_inner().to_bits()), "approx": f.into_inner()}),
        Value::Boolean(b) => json!({"Boolean": b}),
        Value::Bytes(b) => match std::str::from_utf8(b) {
            Ok(s) => json!({"Bytes": s}),
            Err(_) => json!({"BytesHex": b.iter().map(|x| format!("{x:02x}")).collect::<String>()}),
        },
        Value::Array(a) => json!({"Array": a.iter().map(to_tagged).collect::<Vec<_>>()}),
        Value::Object(o) => json!({"Object": o.iter().map(|(k, v)| (k.to_string(), to_tagged(v))).collect::<BTreeMap<_, _>>()}),
        Value::Timestamp(t) => json!({"Timestamp": t.to_rfc3339()}),
        Value::Regex(r) => json!({"Regex": r.to_string()}),
    }
}

/// plain JSON -> Value (for events)
fn from_plain(j: &J) -> Value {
    match j {
        J::Null => Value::Null,
        J::Bool(b) => Value::Boolean(*b),
        J::Number(n) => {
            if let Some(i) = n.as_i64() {
                Value::Integer(i)
            } else {
                Value::Float(NotNan::new(n.as_f64().unwrap()).unwrap())
            }
        }
        J::String(s) => Value::Bytes(Bytes::from(s.clone())),
        J::Array(a) => Value::Array(a.iter().map(from_plain).collect()),
        J::Object(o) => Value::Object(o.iter().map(|(k, v)| (k.as_str().into(), from_plain(v))).collect()),
    }
}

fn run_program(spec: &J) -> J {
    let source = spec["source"].as_str().expect("source");
    let event = spec.get("event").map(from_plain).unwrap_or_else(|| Value::Object(ObjectMap::new()));
    let metadata = spec.get("metadata").map(from_plain).unwrap_or_else(|| Value::Object(ObjectMap::new()));
    let mut config = CompileConfig::default();
    if let Some(ro) = spec.get("read_only").and_then(|x| x.as_array()) {
        for item in ro {
            let p = item[0].as_str().unwrap();
            let rec = item[1].as_bool().unwrap();
            let path = vrl::path::parse_target_path(p).expect("read-only path");
            config.set_read_only_path(path, rec);
        }
    }
    let fns = vrl::stdlib::all();
    let external = match spec.get("env_kinds").and_then(|x| x.as_object()) {
        Some(m) => {
            // event typed as an object whose listed fields have the given scalar kinds (bit masks as in tables.rs)
            let mut fields: BTreeMap<vrl::value::kind::Field, Kind> = BTreeMap::new();
            for (k, v) in m {
                fields.insert(k.as_str().into(), tables::kind_of(v.as_u64().unwrap_or(0) as u8));
            }
            ExternalEnv::new_with_kind(Kind::object(Collection::from(fields)), Kind::object(Collection::empty()))
        }
        None => ExternalEnv::default(),
    };
    let compiled = panic::catch_unwind(panic::AssertUnwindSafe(|| vrl::compiler::compile_with_external(source, &fns, &external, config)));
    let compiled = match compiled {
        Err(e) => {
            let msg = e.downcast_ref::<String>().cloned().or_else(|| e.downcast_ref::<&str>().map(|s| (*s).to_string())).unwrap_or_default();
            let loc = LAST_PANIC_LOC.with(|l| l.borrow().clone());
            return json!({"compiled": false, "outcome": "panic", "phase": "compile", "message": msg, "location": loc});
        }
        Ok(Err(diags)) => {
            let msgs: Vec<String> = diags.iter().map(|d| d.message.clone()).collect();
            return json!({"compiled": false, "outcome": "compile_error", "messages": msgs});
        }
        Ok(Ok(r)) => r,
    };
    let program = compiled.program;
    let mut target = FaultyTarget {
        inner: TargetValue { value: event, metadata, secrets: Secrets::default() },
        gets: std::cell::Cell::new(0),
        inserts: 0,
        removes: 0,
        fail_gets: idx_list(spec, "get"),
        fail_inserts: idx_list(spec, "insert"),
        fail_removes: idx_list(spec, "remove"),
        log: std::cell::RefCell::new(Vec::new()),
    };
    let tz = TimeZone::default();
    let res = panic::catch_unwind(panic::AssertUnwindSafe(|| {
        let mut rt = Runtime::default();
        rt.resolve(&mut target, &program, &tz)
    }));
    let oplog = target.log.borrow().clone();
    let target = target.inner;
    let (outcome, value, message) = match &res {
        Err(e) => {
            let msg = e.downcast_ref::<String>().cloned().or_else(|| e.downcast_ref::<&str>().map(|s| (*s).to_string())).unwrap_or_default();
            let loc = LAST_PANIC_LOC.with(|l| l.borrow().clone());
            ("panic", J::Null, format!("{msg} @ {loc}"))
        }
        Ok(Ok(v)) => ("ok", to_tagged(v), String::new()),
        Ok(Err(Terminate::Abort(e))) => ("abort", J::Null, e.to_string()),
        Ok(Err(Terminate::Error(e))) => ("error", J::Null, e.to_string()),
    };
    let info = program.info();
    // type-soundness observation: does what the run produced belong to what the compiler reported?
    let tinfo = program.final_type_info();
    let mut type_errors: Vec<String> = Vec::new();
    if outcome == "ok" {
        if let Ok(Ok(v)) = &res {
            let reported = tinfo.result.kind().clone().union(tinfo.result.returns().clone());
            if let Err(p) = reported.is_superset(&Kind::from(v)) {
                type_errors.push(format!("result value {v} not in reported result kind {reported} (at {p})"));
            }
        }
        let tk = tinfo.state.external.target_kind();
        if let Err(p) = tk.is_superset(&Kind::from(&target.value)) {
            type_errors.push(format!("final event {} not in reported event kind {tk} (at {p})", target.value));
        }
        let mk = tinfo.state.external.metadata_kind();
        if let Err(p) = mk.is_superset(&Kind::from(&target.metadata)) {
            type_errors.push(format!("final metadata {} not in reported metadata kind {mk} (at {p})", target.metadata));
        }
    }
    json!({
        "type_errors": type_errors,
        "compiled": true,
        "outcome": outcome,
        "value": value,
        "message": message,
        "event": to_tagged(&target.value),
        "metadata": to_tagged(&target.metadata),
        "target_ops": oplog,
        "fallible": info.fallible,
        "abortable": info.abortable,
    })
}

#[cfg(not(feature = "kernels"))]
fn call_fn(_spec: &J) -> J {
    json!({"error": "kernel mode unavailable: the replayer was built without the `kernels` feature"})
}

#[cfg(feature = "kernels")]
fn call_fn(spec: &J) -> J {
    let name = spec["fn"].as_str().unwrap();
    let args: Vec<Value> = spec["args"].as_array().unwrap().iter().map(from_tagged).collect();
    let r = panic::catch_unwind(|| -> J {
        let a = args[0].clone();
        let b = args.get(1).cloned().unwrap_or(Value::Null);
        let res: Result<Value, ValueError> = match name {
            "try_add" => a.try_add(b),
            "try_sub" => a.try_sub(b),
            "try_mul" => a.try_mul(b),
            "try_div" => a.try_div(b),
            "try_rem" => a.try_rem(b),
            "try_and" => a.try_and(b),
            "try_gt" => a.try_gt(b),
            "try_ge" => a.try_ge(b),
            "try_lt" => a.try_lt(b),
            "try_le" => a.try_le(b),
            "try_merge" => a.try_merge(b),
            "eq_lossy" => Ok(Value::Boolean(a.eq_lossy(&b))),
            _ => return json!({"error": format!("unknown fn {name}")}),
        };
        match res {
            Ok(v) => json!({"ok": to_tagged(&v)}),
            Err(e) => json!({"err": format!("{e:?}").split('(').next().unwrap_or("").split(' ').next().unwrap_or("").to_string(), "message": e.to_string()}),
        }
    });
    match r {
        Ok(j) => j,
        Err(e) => {
            let msg = e.downcast_ref::<String>().cloned().or_else(|| e.downcast_ref::<&str>().map(|s| (*s).to_string())).unwrap_or_default();
            json!({"panic": msg})
        }
    }
}

fn main() {
    let args: Vec<String> = std::env::args().collect();
    panic::set_hook(Box::new(|info| {
        let loc = info.location().map(|l| format!("{}:{}", l.file(), l.line())).unwrap_or_default();
        LAST_PANIC_LOC.with(|l| *l.borrow_mut() = loc);
    }));
    match args.get(1).map(String::as_str) {
        Some("run") => {
            let spec: J = serde_json::from_str(&std::fs::read_to_string(&args[2]).unwrap()).unwrap();
            // a file may hold one spec or a list of specs
            if let Some(list) = spec.as_array() {
                let out: Vec<J> = list.iter().map(run_program).collect();
                println!("{}", serde_json::to_string(&out).unwrap());
            } else {
                println!("{}", serde_json::to_string(&run_program(&spec)).unwrap());
            }
        }
        Some("fn") => {
            let spec: J = serde_json::from_str(&std::fs::read_to_string(&args[2]).unwrap()).unwrap();
            if let Some(list) = spec.as_array() {
                let out: Vec<J> = list.iter().map(call_fn).collect();
                println!("{}", serde_json::to_string(&out).unwrap());
            } else {
                println!("{}", serde_json::to_string(&call_fn(&spec)).unwrap());
            }
        }
        Some("optable") => tables::optable(),
        _ => {
            eprintln!("usage: vrl-replay run|fn <file.json> | optable");
            std::process::exit(2);
        }
    }
}
