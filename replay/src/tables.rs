//! Engine T: finite compile-time tables dumped from the real compiler.
//!
//! `optable`: for every eager binary operator and every pair of non-empty operand kinds drawn from
//! {integer, float, bytes, boolean, null, timestamp} (63 x 63 x 10), compile `.a OP .b` against an event typed
//! `{ a: ka, b: kb }` and report whether the compiler calls it fallible and which result kinds it reports.
use serde_json::json;
use std::collections::BTreeMap;
use vrl::compiler::CompileConfig;
use vrl::compiler::state::ExternalEnv;
use vrl::prelude::*;
use vrl::value::kind::Collection;

const SCALARS: [&str; 6] = ["integer", "float", "bytes", "boolean", "null", "timestamp"];

pub fn kind_of(mask: u8) -> Kind {
    let mut k = Kind::never();
    if mask & 1 != 0 { k = k.or_integer(); }
    if mask & 2 != 0 { k = k.or_float(); }
    if mask & 4 != 0 { k = k.or_bytes(); }
    if mask & 8 != 0 { k = k.or_boolean(); }
    if mask & 16 != 0 { k = k.or_null(); }
    if mask & 32 != 0 { k = k.or_timestamp(); }
    k
}

fn mask_of(k: &Kind) -> u8 {
    let mut m = 0;
    if k.contains_integer() && !k.is_never() { m |= 1; }
    if k.contains_float() && !k.is_never() { m |= 2; }
    if k.contains_bytes() && !k.is_never() { m |= 4; }
    if k.contains_boolean() && !k.is_never() { m |= 8; }
    if k.contains_null() && !k.is_never() { m |= 16; }
    if k.contains_timestamp() && !k.is_never() { m |= 32; }
    m
}

pub fn optable() {
    let fns = vrl::stdlib::all();
    let ops = ["*", "/", "+", "-", "!=", "==", ">=", ">", "<=", "<"];
    let mut rows = Vec::new();
    for op in ops {
        for ka in 1u8..64 {
            for kb in 1u8..64 {
                let mut fields: BTreeMap<vrl::value::kind::Field, Kind> = BTreeMap::new();
                fields.insert("a".into(), kind_of(ka));
                fields.insert("b".into(), kind_of(kb));
                let target = Kind::object(Collection::from(fields));
                let env = ExternalEnv::new_with_kind(target, Kind::object(Collection::empty()));
                let src = format!(".a {op} .b");
                let plain = vrl::compiler::compile_with_external(&src, &fns, &env, CompileConfig::default());
                let (fallible, result_mask, other) = match plain {
                    Ok(r) => {
                        let ti = r.program.final_type_info();
                        let k = ti.result.kind().clone();
                        (false, mask_of(&k), k.contains_object() || k.contains_array() || k.contains_regex() || k.contains_undefined())
                    }
                    Err(_) => {
                        // fallible: handle the error with a marker type the operators never produce (an object)
                        let src2 = format!("(.a {op} .b) ?? {{}}");
                        match vrl::compiler::compile_with_external(&src2, &fns, &env, CompileConfig::default()) {
                            Ok(r) => {
                                let ti = r.program.final_type_info();
                                let k = ti.result.kind().clone();
                                (true, mask_of(&k), k.contains_array() || k.contains_regex() || k.contains_undefined())
                            }
                            Err(d) => {
                                let msgs: Vec<String> = d.iter().map(|x| x.message.clone()).collect();
                                rows.push(json!({"op": op, "ka": ka, "kb": kb, "error": msgs}));
                                continue;
                            }
                        }
                    }
                };
                rows.push(json!({"op": op, "ka": ka, "kb": kb, "fallible": fallible, "result": result_mask, "other": other}));
            }
        }
    }
    println!("{}", json!({"scalars": SCALARS, "rows": rows}));
}
