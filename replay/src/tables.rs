//! Engine T: finite compile-time tables, dumped from the real compiler (filled in later).
pub fn optable() {
    println!("[]");
}
