#!/bin/bash
# Offline set-up after a fresh restore: pre-build everything the checks rebuild incrementally.
set -u
here="$(cd "$(dirname "${BASH_SOURCE[0]}")" && pwd)"
export CARGO_NET_OFFLINE=true
SCRATCH="${VERIF_SCRATCH:-/var/tmp/vrl-verif}"
mkdir -p "$SCRATCH" "$here/evidence" "$here/replays"
cp -n /repo/Cargo.lock "$here/kani/Cargo.lock" 2>/dev/null
cp -n /repo/Cargo.lock "$here/replay/Cargo.lock" 2>/dev/null
rc=0
( cd "$here/replay" && cargo build --offline --target-dir "$SCRATCH/replay2-target" 2>&1 | tail -2 ) || rc=1
( cd "$here/kani" && cargo build --offline --bin replay --target-dir "$SCRATCH/replay-target" 2>&1 | tail -2 ) || rc=1
( cd "$here/kani" && VRL_REPO=/repo cargo kani --lib --only-codegen --target-dir "$SCRATCH/kani-target" 2>&1 | tail -2 ) || rc=1
python3-vt - <<PY || rc=1
import sys
sys.path.insert(0, "$here/lib"); sys.path.insert(0, "$here/lib/mirse")
from lemma import Session
s = Session.get()
print("MIR dump:", s.dump_path, "functions:", len(s.prog.fns))
s2 = Session.get("compiler,stdlib-base")
print("MIR dump (stdlib-base):", s2.dump_path, "functions:", len(s2.prog.fns))
PY
exit $rc
